package check

// Property check driver: generate obligations for the functions serving a property, discharge them,
// report violations / known findings, write evidence.

import (
	"encoding/json"
	"fmt"
	"os"
	"path/filepath"
	"runtime"
	"sort"
	"strconv"
	"strings"
	"time"

	"verif/internal/vc"
)

type Config struct {
	Repo, Prop, Tier, Only, Evidence, WorkDir, Root string
	Timeout, Workers                              int
	Verbose, List                                 bool
}

type lemmaInfo struct {
	Name    string `json:"name"`
	Backend string `json:"backend"`
	Status  string `json:"status"`
}

func contains(ss []string, s string) bool {
	for _, x := range ss {
		if x == s {
			return true
		}
	}
	return false
}

func Run(cfg Config) int {
	start := time.Now()
	seed := 0
	if v := os.Getenv("VERIF_SEED"); v != "" {
		seed, _ = strconv.Atoi(v)
	}
	if cfg.Timeout == 0 {
		cfg.Timeout = 15
		if cfg.Tier == "thorough" {
			cfg.Timeout = 60
		}
	}
	if cfg.Workers == 0 {
		cfg.Workers = runtime.NumCPU() / 2
		if cfg.Workers < 2 {
			cfg.Workers = 2
		}
	}
	tag := cfg.Prop
	if tag == "" {
		tag = "all"
	}
	if cfg.WorkDir == "" {
		sub := tag
		if cfg.Only != "" {
			sub += "-" + strings.Map(func(r rune) rune {
				if r >= 'a' && r <= 'z' || r >= 'A' && r <= 'Z' || r >= '0' && r <= '9' || r == '.' {
					return r
				}
				return '_'
			}, cfg.Only)
		}
		cfg.WorkDir = filepath.Join(cfg.Root, "work", sub)
	}
	os.RemoveAll(cfg.WorkDir)
	if err := os.MkdirAll(cfg.WorkDir, 0o755); err != nil {
		fmt.Fprintln(os.Stderr, "cannot create work dir:", err)
		return 2
	}
	eng, err := vc.Load(cfg.Repo)
	if err != nil {
		fmt.Fprintln(os.Stderr, "load failed:", err)
		// a repository that no longer loads cannot be verified: report as a violation of the property
		if cfg.Prop != "" {
			rp := writeReplay(cfg, "load", "load failed: "+err.Error())
			fmt.Printf("VIOLATION property=%s replay=%s obligation=load no-failing-input-found\n", cfg.Prop, rp)
			return 1
		}
		return 2
	}
	if err := eng.LoadPrelude(filepath.Join(cfg.Root, "prelude")); err != nil {
		fmt.Fprintln(os.Stderr, "prelude:", err)
		return 2
	}
	var results []*vc.FuncResult
	var pkgNames []string
	for n := range eng.Pkgs {
		pkgNames = append(pkgNames, n)
	}
	sort.Strings(pkgNames)
	var anchorErrs []string
	done := map[string]bool{}
	verifyContract := func(pi *vc.PkgInfo, cn string, ct *vc.Contract) {
		full := pi.Name + "." + cn
		if done[full] {
			return
		}
		done[full] = true
		fo := pi.FuncNames[cn]
		if cfg.Only != "" && !strings.Contains(full, cfg.Only) && !(fo == nil && eng.IsInterfaceMethod(pi, cn)) {
			return
		}
		if fo == nil {
			if eng.IsInterfaceMethod(pi, cn) {
				results = append(results, &vc.FuncResult{Name: full, Pkg: pi.Name, Trusted: "interface contract (implementations are checked for refinement)", Serves: ct.Serves})
				results = append(results, eng.Refinements(pi, cn, ct, cfg.Only)...)
				return
			}
			anchorErrs = append(anchorErrs, fmt.Sprintf("%s: contract anchored on a function that no longer exists (%s:%d)", full, ct.File, ct.Line))
			return
		}
		results = append(results, eng.VerifyFunc(pi, fo, ct))
	}
	for _, pn := range pkgNames {
		pi := eng.Pkgs[pn]
		var cnames []string
		for n := range pi.Spec.Contracts {
			cnames = append(cnames, n)
		}
		sort.Strings(cnames)
		for _, cn := range cnames {
			ct := pi.Spec.Contracts[cn]
			if cfg.Prop != "" && !contains(ct.Serves, cfg.Prop) {
				continue
			}
			verifyContract(pi, cn, ct)
		}
		for _, lm := range pi.Spec.LemmaList {
			if cfg.Prop != "" && !contains(lm.Serves, cfg.Prop) {
				continue
			}
			full := pn + ".lemma." + lm.Name
			if cfg.Only != "" && !strings.Contains(full, cfg.Only) {
				continue
			}
			results = append(results, eng.ProveLemma(pi, lm))
		}
	}
	// closure: every contract a verified body relies on (callees, implementations behind interface contracts) is
	// verified in the same run, whatever its `serves` tags say
	for changed := true; changed && cfg.Prop != "" && cfg.Only == ""; {
		changed = false
		var keys []string
		for k := range eng.Called {
			if !done[k] {
				keys = append(keys, k)
			}
		}
		sort.Strings(keys)
		for _, k := range keys {
			i := strings.Index(k, ".")
			pi := eng.Pkgs[k[:i]]
			if pi == nil {
				done[k] = true
				continue
			}
			ct := pi.Spec.Contracts[k[i+1:]]
			if ct == nil {
				done[k] = true
				continue
			}
			verifyContract(pi, k[i+1:], ct)
			changed = true
		}
	}
	// closure: every lemma used (transitively) by what was selected is proved in the same run
	provedLemma := map[string]bool{}
	for _, r := range results {
		provedLemma[r.Name] = true
	}
	for changed := true; changed && cfg.Prop != ""; {
		changed = false
		var used []string
		for n := range eng.LemmaUse {
			used = append(used, n)
		}
		sort.Strings(used)
		for _, n := range used {
			i := strings.Index(n, ".")
			pn, ln := n[:i], n[i+1:]
			full := pn + ".lemma." + ln
			if provedLemma[full] {
				continue
			}
			provedLemma[full] = true
			pi := eng.Pkgs[pn]
			if pi == nil {
				continue
			}
			for _, lm := range pi.Spec.LemmaList {
				if lm.Name == ln {
					if cfg.Only == "" || strings.Contains(full, cfg.Only) || true {
						results = append(results, eng.ProveLemma(pi, lm))
						changed = true
					}
				}
			}
		}
	}
	var obls []*vc.Obligation
	var refused []string
	var fnames, trusted []string
	paths := 0
	for _, r := range results {
		if r.Refused != "" {
			refused = append(refused, r.Name+": "+r.Refused)
		}
		if r.Trusted != "" {
			trusted = append(trusted, r.Name+" ("+r.Trusted+")")
		} else if !r.Inline {
			fnames = append(fnames, r.Name)
		}
		paths += r.Paths
		obls = append(obls, r.Obls...)
	}
	if cfg.List {
		for _, o := range obls {
			fmt.Printf("%s  [%s]  %s\n", o.Name, o.Pos, o.Src)
		}
		fmt.Printf("%d obligations, %d functions, %d paths\n", len(obls), len(fnames), paths)
		for _, r := range refused {
			fmt.Println("REFUSED", r)
		}
		return 0
	}
	genSecs := time.Since(start).Seconds()
	vc.DischargeAll(obls, cfg.WorkDir, cfg.Timeout, seed, cfg.Workers, cfg.Tier == "thorough")
	// grouped conjunctions are reported through their conjuncts
	var flat []*vc.Obligation
	for _, o := range obls {
		if len(o.Parts) > 0 {
			for _, p := range o.Parts {
				if p.Status == "" {
					p.Status = "skipped"
				}
				flat = append(flat, p)
			}
		} else {
			flat = append(flat, o)
		}
	}
	obls = flat
	// decide
	bySolver := map[string]int{}
	discharged := 0
	var failed []*vc.Obligation
	var slow []map[string]interface{}
	solverSecs := 0.0
	skipped := 0
	// cover obligations: a return statement is covered when at least one path reaching it is satisfiable; it is an
	// alarm only when every path reaching it is definitely contradictory (inconclusive answers are reported, not alarmed)
	reachSat := map[string]bool{}
	reachAllUnsat := map[string]bool{}
	for _, o := range obls {
		if o.Kind != "reach" {
			continue
		}
		if _, seen := reachAllUnsat[o.Base]; !seen {
			reachAllUnsat[o.Base] = true
		}
		if o.Status == "sat" {
			reachSat[o.Base] = true
		}
		if o.Status != "unsat" {
			reachAllUnsat[o.Base] = false
		}
	}
	crossChecked := 0
	for _, o := range obls {
		if o.CrossChecked > 0 {
			crossChecked++
		}
	}
	infeasiblePaths, coveredReturns, inconclusiveReturns := 0, 0, 0
	for b := range reachAllUnsat {
		if reachSat[b] {
			coveredReturns++
		} else if !reachAllUnsat[b] {
			inconclusiveReturns++
		}
	}
	for _, o := range obls {
		solverSecs += o.Seconds
		if o.Kind == "reach" {
			if o.Status == "unsat" {
				infeasiblePaths++
			}
			if reachSat[o.Base] || !reachAllUnsat[o.Base] {
				discharged++
				bySolver[o.Solver]++
			} else {
				failed = append(failed, o)
			}
			continue
		}
		ok := (!o.Vacuity && o.Status == "unsat") || (o.Vacuity && o.Status == "sat")
		if ok {
			discharged++
			bySolver[o.Solver]++
		} else if o.Status == "skipped" {
			skipped++
		} else {
			failed = append(failed, o)
		}
	}
	if skipped > 0 {
		fmt.Printf("note: %d obligations were not attempted after %d failures\n", skipped, len(failed))
	}
	sort.Slice(obls, func(i, j int) bool { return obls[i].Seconds > obls[j].Seconds })
	for i := 0; i < len(obls) && i < 10; i++ {
		slow = append(slow, map[string]interface{}{"obligation": obls[i].Name, "seconds": round3(obls[i].Seconds), "solver": obls[i].Solver})
	}
	known := loadKnownFindings(filepath.Join(cfg.Root, "known_findings.txt"))
	exit := 0
	violations := 0
	var knownHit []string
	report := func(base, detail, smtFile, model string, status string) {
		if kf := known.match(cfg.Prop, base); kf != nil {
			line := fmt.Sprintf("KNOWN-FINDING: property=%s %s", cfg.Prop, kf.Desc)
			if !contains(knownHit, line) {
				knownHit = append(knownHit, line)
				fmt.Println(line)
			}
			return
		}
		violations++
		exit = 1
		rp := writeReplay(cfg, base, detail+"\n\nSMT query: "+smtFile+"\nsolver output:\n"+model)
		suffix := " no-failing-input-found"
		fmt.Printf("VIOLATION property=%s replay=%s obligation=%s status=%s%s\n", propOr(cfg.Prop), rp, base, status, suffix)
	}
	seenBase := map[string]bool{}
	for _, o := range failed {
		if cfg.Verbose {
			fmt.Printf("FAILED %s status=%s solver=%s (%s) %s\n", o.Name, o.Status, o.Solver, o.Pos, o.Src)
		}
		if seenBase[o.Base] {
			continue
		}
		seenBase[o.Base] = true
		what := "not discharged"
		if o.Vacuity {
			what = "precondition is contradictory or undecided (vacuity check)"
		}
		if o.Kind == "reach" {
			what = "no satisfiable path reaches this return statement (cover check): the postconditions proved there are vacuous"
		}
		report(o.Base, fmt.Sprintf("obligation %s %s (status %s)\nat %s\nclause: %s", o.Name, what, o.Status, o.Pos, o.Src), o.SMT, o.Model, o.Status)
	}
	for _, r := range refused {
		name := strings.SplitN(r, ":", 2)[0] + "/subset"
		report(name, "generator refused the function (outside the verified subset, or a contract anchor/loop invariant is missing): "+r, "", "", "refused")
	}
	for _, a := range anchorErrs {
		name := strings.SplitN(a, ":", 2)[0] + "/anchor"
		report(name, a, "", "", "anchor")
	}
	if len(obls) == 0 && cfg.Prop != "" {
		report(cfg.Prop+"/no-obligations", "no obligation was generated for this property (vacuous check)", "", "", "empty")
	}
	// the work directory holds one query file per obligation (gigabytes for the larger properties): keep only the
	// files of the obligations that failed
	if os.Getenv("VERIF_KEEP_WORK") == "" {
		keep := map[string]bool{}
		for _, o := range failed {
			if o.SMT != "" {
				keep[filepath.Base(o.SMT)] = true
				keep[strings.TrimSuffix(filepath.Base(o.SMT), ".smt2")+".sliced.smt2"] = true
				keep[filepath.Base(o.SMT)+".model.smt2"] = true
			}
		}
		if ents, err := os.ReadDir(cfg.WorkDir); err == nil {
			for _, e := range ents {
				if !keep[e.Name()] {
					os.Remove(filepath.Join(cfg.WorkDir, e.Name()))
				}
			}
			if len(keep) == 0 {
				os.Remove(cfg.WorkDir)
			}
		}
	}
	wall := time.Since(start).Seconds()
	if !cfg.Verbose {
		fmt.Printf("%s: %d obligations, %d discharged, %d failed, %d functions under contract, %d trusted, %d paths; gen %.1fs, solver %.1fs (cpu), wall %.1fs\n",
			propOr(cfg.Prop), len(obls), discharged, len(failed), len(fnames), len(trusted), paths, genSecs, solverSecs, wall)
	} else {
		fmt.Printf("%d obligations, %d discharged, %d refused; wall %.1fs\n", len(obls), discharged, len(refused), wall)
	}
	if cfg.Evidence != "" {
		var samples []map[string]interface{}
		for i, o := range obls {
			if i%(len(obls)/5+1) == 0 && len(samples) < 6 {
				goal := o.Goal.S
				if len(goal) > 400 {
					goal = goal[:400] + "…"
				}
				samples = append(samples, map[string]interface{}{"obligation": o.Name, "clause": o.Src, "at": o.Pos, "goal": goal, "hypotheses": len(o.Hyps), "status": o.Status, "solver": o.Solver})
			}
		}
		tb := append([]string{}, trusted...)
		tb = append(tb, eng.Assumptions(cfg.Prop)...)
		ev := map[string]interface{}{
			"property_id": cfg.Prop,
			"tier":        cfg.Tier,
			"seed":        seed,
			"level":       "proof",
			"wall_s":      round3(wall),
			"violations":  violations,
			"coverage": map[string]interface{}{
				"obligations":              len(obls),
				"discharged":               discharged,
				"checker_cmd":              "bin/govc -prop " + cfg.Prop + " -tier " + cfg.Tier + " (VCs over go/ast+go/types of " + cfg.Repo + ", discharged by z3 5.1.0 / z3 4.8.12 / cvc5 1.0.3)",
				"trusted_base":             tb,
				"functions_under_contract": fnames,
				"trusted_or_interface":     trusted,
				"paths":                    paths,
				"by_solver":                bySolver,
				"solver_cpu_s":             round3(solverSecs),
				"generation_s":             round3(genSecs),
				"slowest":                  slow,
				"samples":                  samples,
				"lemma_uses":               eng.LemmaUse,
				"assumed_postconditions":   eng.AssumedClauses,
				"cross_checked_by_second_solver": crossChecked,
				"returns_covered":          coveredReturns,
				"returns_cover_inconclusive": inconclusiveReturns,
				"infeasible_paths":         infeasiblePaths,
				"refused":                  refused,
				"known_findings":           knownHit,
				"per_obligation_timeout_s": cfg.Timeout,
			},
			"assumptions": eng.Assumptions(cfg.Prop),
		}
		b, _ := json.MarshalIndent(ev, "", " ")
		os.MkdirAll(filepath.Dir(cfg.Evidence), 0o755)
		if err := os.WriteFile(cfg.Evidence, b, 0o644); err != nil {
			fmt.Fprintln(os.Stderr, "cannot write evidence:", err)
			return 2
		}
	}
	return exit
}

func propOr(p string) string {
	if p == "" {
		return "all"
	}
	return p
}

func round3(f float64) float64 { return float64(int(f*1000+0.5)) / 1000 }

func writeReplay(cfg Config, base, text string) string {
	dir := filepath.Join(cfg.Root, "replay", propOr(cfg.Prop))
	os.MkdirAll(dir, 0o755)
	name := strings.Map(func(r rune) rune {
		if r >= 'a' && r <= 'z' || r >= 'A' && r <= 'Z' || r >= '0' && r <= '9' || r == '.' || r == '-' || r == '_' {
			return r
		}
		return '_'
	}, base)
	p := filepath.Join(dir, name+".txt")
	os.WriteFile(p, []byte("failed obligation: "+base+"\n"+text+"\n"), 0o644)
	return p
}

// ---------------------------------------------------------------- known findings

type finding struct {
	Prop, Obligation, Desc string
}
type findings struct{ list []finding }

func loadKnownFindings(path string) *findings {
	f := &findings{}
	b, err := os.ReadFile(path)
	if err != nil {
		return f
	}
	for _, line := range strings.Split(string(b), "\n") {
		line = strings.TrimSpace(line)
		if !strings.HasPrefix(line, "finding:") {
			continue // "fixed:" entries suppress nothing
		}
		rest := strings.TrimSpace(line[len("finding:"):])
		var fd finding
		parts := strings.Fields(rest)
		var desc []string
		for _, p := range parts {
			switch {
			case strings.HasPrefix(p, "property=") && fd.Prop == "":
				fd.Prop = p[len("property="):]
			case strings.HasPrefix(p, "obligation=") && fd.Obligation == "":
				fd.Obligation = p[len("obligation="):]
			default:
				desc = append(desc, p)
			}
		}
		fd.Desc = strings.Join(desc, " ")
		f.list = append(f.list, fd)
	}
	return f
}

func (f *findings) match(prop, base string) *finding {
	for i := range f.list {
		if f.list[i].Prop == prop && f.list[i].Obligation == base {
			return &f.list[i]
		}
	}
	return nil
}
