package vc

// Engine: package loading, type classification, heap accessors, obligations.

import (
	"fmt"
	"regexp"
	"go/ast"
	"go/token"
	"go/types"
	"os"
	"path/filepath"
	"sort"
	"strings"

	"golang.org/x/tools/go/packages"
)

type PkgInfo struct {
	P         *packages.Package
	Name      string
	Spec      *PkgSpec
	FuncDecls map[*types.Func]*ast.FuncDecl
	FuncNames map[string]*types.Func // "Recv.Name" / "Name"
	FileOf    map[*types.Func]*ast.File
}

type Engine struct {
	Repo    string
	Fset    *token.FileSet
	Pkgs    map[string]*PkgInfo // by short name
	ByPath  map[string]*PkgInfo
	Obls    []*Obligation
	Errors  []string // generator refusals / anchor failures (reported as failed obligations)
	Verbose bool
	TypeTags map[string]int // dynamic type tags by "pkg.Type"
	tagList  []string
	LemmaUse map[string]int
	LocalAssumptions []string
	assumeSeen map[string]bool
	FunctionsRun []string
	TrustedFuncs []string
	AssumedClauses map[string]string // "pkg.Func/ensures(label)" -> reason: postconditions trusted while the body is verified
	Called map[string]bool // contracts relied upon ("pkg.Recv.Func"): callees of verified bodies, implementations behind interface contracts
	ImmutablePrefixes []string // heap-array name prefixes ("fld$pkg.Type.") of immutable struct types
}

func (e *Engine) noteAssumedClause(name, reason string) {
	if e.AssumedClauses == nil {
		e.AssumedClauses = map[string]string{}
	}
	e.AssumedClauses[name] = reason
}

// immutableHeap: the named heap array holds a field of a struct type declared immutable: its entries for allocated
// objects never change, so it is one global array (objects allocated later take references whose entries have the
// values they are initialised with - the same model as results of contract calls).
func (e *Engine) immutableHeap(name string) bool {
	for _, p := range e.ImmutablePrefixes {
		if strings.HasPrefix(name, p) {
			return true
		}
	}
	return false
}

func Load(repo string) (*Engine, error) {
	fset := token.NewFileSet()
	env := append(os.Environ(), "GOFLAGS=-mod=mod", "GOPROXY=off", "GOSUMDB=off", "GOTOOLCHAIN=local")
	cfg := &packages.Config{
		Mode: packages.NeedName | packages.NeedFiles | packages.NeedSyntax | packages.NeedTypes |
			packages.NeedTypesInfo | packages.NeedImports | packages.NeedDeps | packages.NeedCompiledGoFiles,
		Dir: repo, BuildFlags: []string{"-tags=verif"}, Fset: fset, Env: env,
	}
	pkgs, err := packages.Load(cfg, "./...")
	if err != nil {
		return nil, err
	}
	e := &Engine{Repo: repo, Fset: fset, Pkgs: map[string]*PkgInfo{}, ByPath: map[string]*PkgInfo{},
		TypeTags: map[string]int{}, LemmaUse: map[string]int{}, Called: map[string]bool{}}
	for _, p := range pkgs {
		if len(p.Errors) > 0 {
			return nil, fmt.Errorf("package %s: %v", p.PkgPath, p.Errors[0])
		}
		pi := &PkgInfo{P: p, Name: p.Name, FuncDecls: map[*types.Func]*ast.FuncDecl{}, FuncNames: map[string]*types.Func{}, FileOf: map[*types.Func]*ast.File{}}
		var cfiles []string
		for _, f := range p.GoFiles {
			if strings.HasSuffix(f, "_verif.go") {
				cfiles = append(cfiles, f)
			}
		}
		spec, err := LoadContracts(p.Name, cfiles)
		if err != nil {
			return nil, err
		}
		pi.Spec = spec
		for _, tn := range spec.Immutable {
			e.ImmutablePrefixes = append(e.ImmutablePrefixes, "fld$"+p.Name+"."+tn+".")
		}
		for _, f := range p.Syntax {
			for _, d := range f.Decls {
				fd, ok := d.(*ast.FuncDecl)
				if !ok {
					continue
				}
				obj, _ := p.TypesInfo.Defs[fd.Name].(*types.Func)
				if obj == nil {
					continue
				}
				pi.FuncDecls[obj] = fd
				pi.FileOf[obj] = f
				pi.FuncNames[funcKey(obj)] = obj
			}
		}
		e.Pkgs[p.Name] = pi
		e.ByPath[p.PkgPath] = pi
	}
	return e, nil
}

// funcKey: "Recv.Name" (receiver type name without pointer) or "Name".
func funcKey(f *types.Func) string {
	sig := f.Type().(*types.Signature)
	if r := sig.Recv(); r != nil {
		t := r.Type()
		if p, ok := t.(*types.Pointer); ok {
			t = p.Elem()
		}
		if n, ok := t.(*types.Named); ok {
			return n.Obj().Name() + "." + f.Name()
		}
	}
	return f.Name()
}

func (e *Engine) pkgOf(f *types.Func) *PkgInfo {
	if f.Pkg() == nil {
		return nil
	}
	return e.ByPath[f.Pkg().Path()]
}

func (e *Engine) contractOf(f *types.Func) *Contract {
	pi := e.pkgOf(f)
	if pi == nil {
		return nil
	}
	return pi.Spec.Contracts[funcKey(f)]
}

func (e *Engine) relPos(p token.Pos) string {
	pos := e.Fset.Position(p)
	rel, err := filepath.Rel(e.Repo, pos.Filename)
	if err != nil {
		rel = pos.Filename
	}
	return fmt.Sprintf("%s:%d", rel, pos.Line)
}

func (e *Engine) typeTag(name string) int {
	if t, ok := e.TypeTags[name]; ok {
		return t
	}
	t := len(e.TypeTags) + 1
	e.TypeTags[name] = t
	e.tagList = append(e.tagList, name)
	return t
}

func namedKey(n *types.Named) string {
	if n.Obj().Pkg() == nil {
		return n.Obj().Name()
	}
	return n.Obj().Pkg().Name() + "." + n.Obj().Name()
}

// ---------------------------------------------------------------- type classification

type TKind int

const (
	TInt TKind = iota
	TFloat
	TBool
	TString
	TRef   // pointer to struct, interface, map, chan, func-less reference: Int
	TCell  // pointer to non-struct (cell)
	TSlice
	TStruct
	TArray
	TFunc
	TTuple
	TOther
)

func classify(t types.Type) TKind {
	switch u := t.Underlying().(type) {
	case *types.Basic:
		info := u.Info()
		switch {
		case info&types.IsBoolean != 0:
			return TBool
		case info&types.IsInteger != 0:
			return TInt
		case info&types.IsFloat != 0:
			return TFloat
		case info&types.IsString != 0:
			return TString
		case u.Kind() == types.UntypedNil:
			return TRef
		case u.Kind() == types.UnsafePointer:
			return TRef
		}
	case *types.Pointer:
		if _, ok := u.Elem().Underlying().(*types.Struct); ok {
			return TRef
		}
		return TCell
	case *types.Interface, *types.Map, *types.Chan:
		return TRef
	case *types.Slice:
		return TSlice
	case *types.Struct:
		return TStruct
	case *types.Array:
		return TArray
	case *types.Signature:
		return TFunc
	case *types.Tuple:
		return TTuple
	}
	return TOther
}

func intRangeOf(t types.Type) IntRange {
	b, _ := t.Underlying().(*types.Basic)
	if b == nil {
		return IntRange{64, true}
	}
	switch b.Kind() {
	case types.Int, types.Int64, types.UntypedInt, types.UntypedRune:
		return IntRange{64, true}
	case types.Int32:
		return IntRange{32, true}
	case types.Int16:
		return IntRange{16, true}
	case types.Int8:
		return IntRange{8, true}
	case types.Uint, types.Uint64, types.Uintptr:
		return IntRange{64, false}
	case types.Uint32:
		return IntRange{32, false}
	case types.Uint16:
		return IntRange{16, false}
	case types.Uint8:
		return IntRange{8, false}
	}
	return IntRange{64, true}
}

func isPlainInt(t types.Type) bool {
	b, _ := t.Underlying().(*types.Basic)
	return b != nil && (b.Kind() == types.Int || b.Kind() == types.UntypedInt || b.Kind() == types.UntypedRune)
}

// modes of a package (defaults for heap layout)
func (e *Engine) pkgModes(pkg *types.Package) (ints, floats string) {
	if pkg != nil {
		if pi := e.ByPath[pkg.Path()]; pi != nil && pi.Spec != nil {
			return pi.Spec.Ints, pi.Spec.Floats
		}
	}
	return "wrap", "real"
}

func scalarSort(t types.Type, ints, floats string) Sort {
	switch classify(t) {
	case TInt:
		if ints == "bv" && !isPlainInt(t) {
			return BVSort(intRangeOf(t).Bits)
		}
		return SInt
	case TFloat:
		switch floats {
		case "ext":
			return SF
		case "ieee":
			return SFP
		}
		return SReal
	case TBool:
		return SBool
	case TString, TRef, TCell:
		return SInt
	}
	return SInt
}

func floatSortOf(mode string) Sort {
	switch mode {
	case "ext":
		return SF
	case "ieee":
		return SFP
	}
	return SReal
}

// typeKey is a stable string for a Go type, used in heap array names.
func typeKey(t types.Type) string {
	t = types.Unalias(t)
	if b, ok := t.(*types.Basic); ok {
		switch b.Kind() {
		case types.Uint8:
			return "uint8"
		case types.Int32:
			return "int32"
		}
	}
	switch u := t.(type) {
	case *types.Slice:
		return "[]" + typeKey(u.Elem())
	case *types.Pointer:
		return "*" + typeKey(u.Elem())
	}
	return types.TypeString(t, func(p *types.Package) string { return p.Name() })
}

// structOf returns the named struct type behind t (pointer stripped), or nil.
func structOf(t types.Type) (*types.Named, *types.Struct) {
	if p, ok := t.Underlying().(*types.Pointer); ok {
		t = p.Elem()
	}
	n, _ := t.(*types.Named)
	s, _ := t.Underlying().(*types.Struct)
	return n, s
}

// ---------------------------------------------------------------- execution context

type pathEnd struct{ reason string }

type refusal struct{ msg string }

type Ctx struct {
	E        *Engine
	Pkg      *PkgInfo
	St       *State
	Fr       *Frame
	FuncName string // pkg.Recv.Func
	trace    []bool
	tpos     int
	pending  [][]bool
	decls    []string
	declSet  map[string]bool
	nfresh   int
	pathID   strings.Builder
	obls     []*Obligation
	oblSeen  map[string]bool
	loopOrd  map[ast.Node]int
	feOrd    map[ast.Node]int
	callOrd  map[string]int
	callSiteOrd map[ast.Node]int
	curPos   token.Pos
	wfSeen   map[string]bool
	depth    int
	serves   []string
	nPaths   int
	lemmaAx  []Term // auto lemma axioms for this function's package (computed lazily)
	axNames  []string
	kindCount map[string]int
	globalsInit map[string]bool
	bound    *specEnv
	inOld    bool
	noNilChecks bool
	nbound   int
	specDepth int
	epochs   int
	axiomSet map[string]bool
	inHint   bool
	lambdaCache map[string]Term
	boundNames []string
	boundSorts map[string]Sort
	phDepth  int
	opaqueApps []opaqueApp
	opaqueSeen map[string]bool
	inAutoFrame bool
	effCache map[string]*effects
	defs     []Term
	hintSeen map[string]bool
}

func (c *Ctx) refuse(f string, a ...interface{}) {
	panic(refusal{fmt.Sprintf("%s: ", c.E.relPos(c.curPos)) + fmt.Sprintf(f, a...)})
}

func (c *Ctx) fresh(prefix string, sort Sort) Term {
	c.nfresh++
	name := fmt.Sprintf("%s!%d", sanitize(prefix), c.nfresh)
	c.declare(name, sort)
	return Term{S: name, Sort: sort}
}

func (c *Ctx) declare(name string, sort Sort) {
	if c.declSet[name] {
		return
	}
	c.declSet[name] = true
	c.decls = append(c.decls, fmt.Sprintf("(declare-fun %s () %s)", name, sort))
}

func (c *Ctx) declareFun(name string, args []Sort, ret Sort) {
	if c.declSet[name] {
		return
	}
	c.declSet[name] = true
	var as []string
	for _, a := range args {
		as = append(as, string(a))
	}
	c.decls = append(c.decls, fmt.Sprintf("(declare-fun %s (%s) %s)", name, strings.Join(as, " "), ret))
}

func sanitize(s string) string {
	var b strings.Builder
	for _, r := range s {
		switch {
		case r >= 'a' && r <= 'z', r >= 'A' && r <= 'Z', r >= '0' && r <= '9', r == '_', r == '.', r == '$', r == '!':
			b.WriteRune(r)
		case r == '*':
			b.WriteString("ptr.")
		case r == '[':
			b.WriteString("sl")
		case r == ']':
			b.WriteString(".")
		default:
			b.WriteRune('_')
		}
	}
	return b.String()
}

func (c *Ctx) assume(t Term) {
	if t.B != nil && *t.B {
		return
	}
	if len(t.Conj) > 1 {
		// conjuncts become separate hypotheses (finer hypothesis slicing)
		for _, k := range t.Conj {
			c.assume(k)
		}
		return
	}
	c.St.Path = append(c.St.Path, t)
}

// branch decides a symbolic condition using the decision trace.
func (c *Ctx) branch(cond Term) bool {
	if cond.B != nil {
		return *cond.B
	}
	var d bool
	if c.tpos < len(c.trace) {
		d = c.trace[c.tpos]
	} else {
		d = true
		alt := append(append([]bool{}, c.trace[:c.tpos]...), false)
		c.pending = append(c.pending, alt)
		c.trace = append(c.trace, true)
	}
	c.tpos++
	if d {
		c.pathID.WriteByte('T')
		c.assume(cond)
	} else {
		c.pathID.WriteByte('F')
		c.assume(Not(cond))
	}
	return d
}

// choose is a non-deterministic n-way choice recorded in the trace (unary encoding).
func (c *Ctx) choose(n int) int {
	for i := 0; i < n-1; i++ {
		var d bool
		if c.tpos < len(c.trace) {
			d = c.trace[c.tpos]
		} else {
			d = true
			alt := append(append([]bool{}, c.trace[:c.tpos]...), false)
			c.pending = append(c.pending, alt)
			c.trace = append(c.trace, true)
		}
		c.tpos++
		if d {
			c.pathID.WriteByte('0' + byte(i%10))
			return i
		}
	}
	c.pathID.WriteByte('0' + byte((n-1)%10))
	return n - 1
}

// assert records a proof obligation under the current path and then assumes it.
func (c *Ctx) assert(kind, label string, goal Term, src string, serves []string) {
	if goal.B != nil && *goal.B {
		return
	}
	if !c.inHint {
		c.applyHints()
	}
	if len(goal.Conj) > 1 || len(goal.Imp) == 2 {
		// one obligation per conjunct (smaller queries, sharper diagnosis); large conjunctions are first tried as a whole
		flat := flattenConj(goal)
		if len(flat) > 1 {
			saved := c.inHint
			c.inHint = true // hints were instantiated once for the whole clause
			n0 := len(c.obls)
			hyps0 := len(c.St.Path)
			for i, g := range flat {
				c.assert(kind, fmt.Sprintf("%s.%d", label, i+1), g, src, serves)
			}
			c.inHint = saved
			parts := c.obls[n0:]
			if len(parts) >= 6 {
				// group: same hypotheses as the first part, goal = conjunction of the parts' goals
				var goals []Term
				for _, p := range parts {
					goals = append(goals, p.Goal)
				}
				grp := *parts[0]
				grp.Name = strings.Replace(parts[0].Name, "."+"1)", ".*)", 1)
				grp.Base = strings.Replace(parts[0].Base, "."+"1)", ".*)", 1)
				grp.Goal = And(goals...)
				grp.Parts = append([]*Obligation{}, parts...)
				_ = hyps0
				c.obls = append(c.obls[:n0], &grp)
			}
			return
		}
	}
	base := c.FuncName + "/" + kind
	if label != "" {
		base += "(" + label + ")"
	}
	if c.kindCount == nil {
		c.kindCount = map[string]int{}
	}
	name := base
	if pid := c.pathID.String(); pid != "" {
		name += "@" + pid
	}
	c.kindCount[name]++
	if k := c.kindCount[name]; k > 1 {
		name += fmt.Sprintf("#%d", k)
	}
	key := name + "|" + goal.S + "|" + fmt.Sprint(len(c.St.Path))
	if !c.oblSeen[key] {
		c.oblSeen[key] = true
		sv := append(append([]string{}, c.serves...), serves...)
		o := &Obligation{Name: name, Base: base, Func: c.FuncName, Kind: kind, Serves: uniq(sv),
			Hyps: c.hypsWithDefs(), Goal: goal, Src: src, Pos: c.E.relPos(c.curPos), PathID: c.pathID.String()}
		o.Decls = c.decls // shared prefix; finalised at end of path (decls only grow)
		c.obls = append(c.obls, o)
	}
	c.assume(goal)
}

// applyHints instantiates the function-level lemma hints in the current state (skipping those whose
// names are not in scope yet).
func (c *Ctx) applyHints() {
	root := c.rootFrame()
	if root == nil || root.Contract == nil || len(root.Contract.Hints) == 0 {
		return
	}
	c.inHint = true
	savedFr, savedBound, savedOld := c.Fr, c.bound, c.inOld
	c.Fr = root
	c.bound = nil
	c.inOld = false
	defer func() { c.inHint = false; c.Fr, c.bound, c.inOld = savedFr, savedBound, savedOld }()
	for _, h := range root.Contract.Hints {
		func() {
			n0 := len(c.St.Path)
			defer func() {
				if r := recover(); r != nil {
					if _, ok := r.(refusal); ok {
						c.St.Path = c.St.Path[:n0]
						return
					}
					panic(r)
				}
			}()
			c.useLemmas([]SExpr{h})
			// de-duplicate identical instances
			if len(c.St.Path) > n0 {
				last := c.St.Path[len(c.St.Path)-1]
				if c.hintSeen == nil {
					c.hintSeen = map[string]bool{}
				}
				key := reBoundVar.ReplaceAllString(last.S, "!q")
				if c.hintSeen[key] {
					c.St.Path = c.St.Path[:n0]
				} else {
					c.hintSeen[key] = true
				}
			}
		}()
	}
}

var reBoundVar = regexp.MustCompile(`![qam]\d+`)

// hypsWithDefs: the path plus every definitional axiom that is no longer on it.
func (c *Ctx) hypsWithDefs() []Term {
	out := append([]Term{}, c.St.Path...)
	if len(c.defs) == 0 {
		return out
	}
	have := map[string]bool{}
	for _, h := range out {
		have[h.S] = true
	}
	for _, d := range c.defs {
		if !have[d.S] {
			out = append(out, d)
		}
	}
	return out
}

func flattenConj(t Term) []Term {
	if len(t.Imp) == 2 && (len(t.Imp[1].Conj) > 1 || len(t.Imp[1].Imp) == 2) {
		// a ==> (b && c)  splits into  a ==> b,  a ==> c
		var out []Term
		for _, x := range flattenConj(t.Imp[1]) {
			out = append(out, Implies(t.Imp[0], x))
		}
		return out
	}
	if len(t.Conj) == 0 {
		return []Term{t}
	}
	var out []Term
	for _, x := range t.Conj {
		out = append(out, flattenConj(x)...)
	}
	return out
}

func uniq(ss []string) []string {
	m := map[string]bool{}
	var out []string
	for _, s := range ss {
		if !m[s] {
			m[s] = true
			out = append(out, s)
		}
	}
	sort.Strings(out)
	return out
}

// ---------------------------------------------------------------- heap access

// heapArr returns the current term of the named heap array, creating its initial symbol on demand.
func (c *Ctx) heapArr(name string, sort Sort) Term {
	if t, ok := c.St.Heap[name]; ok {
		return t
	}
	ep := c.St.Epoch
	if c.E.immutableHeap(name) {
		ep = 0
	}
	sym := fmt.Sprintf("H%d$%s", ep, sanitize(name))
	c.declare(sym, sort)
	t := Term{S: sym, Sort: sort}
	c.St.Heap[name] = t
	if ep > 0 && !strings.HasPrefix(name, "glob$") {
		c.assumeFrame(name, t)
	}
	return t
}

func (c *Ctx) heapArrIn(heap map[string]Term, name string, sort Sort) Term {
	if t, ok := heap[name]; ok {
		return t
	}
	// an array never touched before the snapshot: the initial symbol of the snapshot's epoch
	ep := int64(0)
	if e, ok := heap["$epoch"]; ok && e.C != nil {
		ep = e.C.Int64()
	}
	if c.E.immutableHeap(name) {
		ep = 0
	}
	sym := fmt.Sprintf("H%d$%s", ep, sanitize(name))
	c.declare(sym, sort)
	t := Term{S: sym, Sort: sort}
	// note: also valid for the current heap if untouched since
	return t
}

func nestedArr(depth int, elem Sort) Sort {
	s := elem
	for i := 0; i < depth; i++ {
		s = ArrSort(SInt, s)
	}
	return s
}

func selPath(arr Term, path []Term) Term {
	for _, p := range path {
		arr = Select(arr, p)
	}
	return arr
}

func storePath(arr Term, path []Term, v Term) Term {
	if len(path) == 1 {
		return Store(arr, path[0], v)
	}
	inner := Select(arr, path[0])
	return Store(arr, path[0], storePath(inner, path[1:], v))
}

// nameHeap introduces a fresh constant equal to a compound heap term to keep terms small.
func (c *Ctx) setHeap(name string, t Term) {
	if len(t.S) > 60 {
		n := c.fresh("H$"+name, t.Sort)
		c.assume(StructEq(n, t))
		t = n
	}
	c.St.Heap[name] = t
}

// load reads a value of Go type t stored under heap base name at the index path.
// heap == nil means the current heap.
func (c *Ctx) load(heap map[string]Term, base string, path []Term, t types.Type, ints, floats string) *Val {
	get := func(name string, sort Sort) Term {
		if heap == nil {
			return c.heapArr(name, sort)
		}
		return c.heapArrIn(heap, name, sort)
	}
	d := len(path)
	switch classify(t) {
	case TSlice:
		v := &Val{K: VSlice, Typ: t}
		v.Arr = selPath(get(base+"$arr", nestedArr(d, SInt)), path)
		if strings.HasPrefix(base, "fld$") || strings.HasPrefix(base, "arr$") {
			// A-OFF0: slices kept in struct fields or as slice elements start at offset 0 of their backing
			// array (an obligation at every such store under contract)
			v.Off = IntLit(0)
		} else {
			v.Off = selPath(get(base+"$off", nestedArr(d, SInt)), path)
		}
		v.Len = selPath(get(base+"$len", nestedArr(d, SInt)), path)
		v.Cap = selPath(get(base+"$cap", nestedArr(d, SInt)), path)
		return v
	case TStruct:
		st := t.Underlying().(*types.Struct)
		ints, floats = c.structModes(t, ints, floats)
		v := &Val{K: VStruct, Typ: t, F: map[string]*Val{}}
		for i := 0; i < st.NumFields(); i++ {
			f := st.Field(i)
			v.F[f.Name()] = c.load(heap, base+"."+f.Name(), path, f.Type(), ints, floats)
		}
		return v
	case TArray:
		at := t.Underlying().(*types.Array)
		es := scalarSort(at.Elem(), ints, floats)
		return &Val{K: VArray, Typ: t, N: at.Len(), T: selPath(get(base, nestedArr(d, ArrSort(SInt, es))), path)}
	case TFunc:
		c.refuse("function-typed storage %s is outside the subset", base)
	}
	s := scalarSort(t, ints, floats)
	return Scalar(selPath(get(base, nestedArr(d, s)), path), t)
}

func (c *Ctx) store(base string, path []Term, t types.Type, v *Val, ints, floats string) {
	d := len(path)
	put := func(name string, sort Sort, x Term) {
		arr := c.heapArr(name, nestedArr(d, sort))
		c.setHeap(name, storePath(arr, path, x))
	}
	switch classify(t) {
	case TSlice:
		if v.K != VSlice {
			c.refuse("storing non-slice into slice location %s", base)
		}
		put(base+"$arr", SInt, v.Arr)
		if strings.HasPrefix(base, "fld$") || strings.HasPrefix(base, "arr$") {
			c.assert("offset0", "", Eq(v.Off, IntLit(0)), "slices stored in fields or as elements start at offset 0 of their array (A-OFF0)", nil)
		} else {
			put(base+"$off", SInt, v.Off)
		}
		put(base+"$len", SInt, v.Len)
		put(base+"$cap", SInt, v.Cap)
		return
	case TStruct:
		st := t.Underlying().(*types.Struct)
		ints, floats = c.structModes(t, ints, floats)
		for i := 0; i < st.NumFields(); i++ {
			f := st.Field(i)
			fv := v.F[f.Name()]
			if fv == nil {
				fv = c.zeroVal(f.Type(), ints, floats)
			}
			c.store(base+"."+f.Name(), path, f.Type(), fv, ints, floats)
		}
		return
	case TArray:
		at := t.Underlying().(*types.Array)
		es := scalarSort(at.Elem(), ints, floats)
		put(base, ArrSort(SInt, es), v.T)
		return
	case TFunc:
		c.refuse("function-typed storage %s is outside the subset", base)
	}
	s := scalarSort(t, ints, floats)
	x := v.T
	if x.Sort != s {
		x = c.coerce(x, s)
	}
	put(base, s, x)
}

// coerce adapts a term to a sort (Int->Real, Real<->XF).
func (c *Ctx) coerce(x Term, s Sort) Term {
	if x.Sort == s {
		return x
	}
	switch {
	case x.Sort == SInt && s == SReal:
		return ToReal(x)
	case x.Sort == SReal && s == SF:
		return App(SF, "xfin", x)
	case x.Sort == SInt && s == SF:
		return App(SF, "xfin", ToReal(x))
	case x.Sort == SF && s == SReal:
		return App(SReal, "xval", x)
	// bit-precise <-> idealised floats: the same uninterpreted change of representation as at call boundaries
	case x.Sort == SFP && s == SReal:
		return App(SReal, "fp2real", x)
	case x.Sort == SFP && s == SF:
		return App(SF, "fp2xf", x)
	case x.Sort == SReal && s == SFP:
		return App(SFP, "real2fp", x)
	case x.Sort == SF && s == SFP:
		return App(SFP, "xf2fp", x)
	}
	c.refuse("cannot coerce %s : %s to %s", x.S, x.Sort, s)
	return x
}

// structModes: the fields of a named struct type are represented in the modes of the package declaring it.
func (c *Ctx) structModes(t types.Type, ints, floats string) (string, string) {
	if n, ok := t.(*types.Named); ok && n.Obj().Pkg() != nil {
		if pi := c.E.ByPath[n.Obj().Pkg().Path()]; pi != nil && pi.Spec != nil {
			return pi.Spec.Ints, pi.Spec.Floats
		}
	}
	return ints, floats
}

func (c *Ctx) zeroTerm(s Sort) Term {
	switch {
	case s == SInt:
		return IntLit(0)
	case s == SReal:
		return RealLitInt(0)
	case s == SBool:
		return False
	case s == SF:
		return App(SF, "xfin", RealLitInt(0))
	case s == SFP:
		return Term{S: "(_ +zero 11 53)", Sort: SFP}
	case s.IsBV():
		return BVLit(bigZero, s.BVWidth())
	case s.IsArray():
		return ConstArray(s.IndexSort(), s.ElemSort(), c.zeroTerm(s.ElemSort()))
	}
	c.refuse("no zero for sort %s", s)
	return Term{}
}

func (c *Ctx) zeroVal(t types.Type, ints, floats string) *Val {
	switch classify(t) {
	case TSlice:
		z := IntLit(0)
		return &Val{K: VSlice, Typ: t, Arr: z, Off: z, Len: z, Cap: z}
	case TStruct:
		st := t.Underlying().(*types.Struct)
		ints, floats = c.structModes(t, ints, floats)
		v := &Val{K: VStruct, Typ: t, F: map[string]*Val{}}
		for i := 0; i < st.NumFields(); i++ {
			f := st.Field(i)
			v.F[f.Name()] = c.zeroVal(f.Type(), ints, floats)
		}
		return v
	case TArray:
		at := t.Underlying().(*types.Array)
		es := scalarSort(at.Elem(), ints, floats)
		return &Val{K: VArray, Typ: t, N: at.Len(), T: ConstArray(SInt, es, c.zeroTerm(es))}
	case TFunc:
		return &Val{K: VFunc, Typ: t}
	}
	return Scalar(c.zeroTerm(scalarSort(t, ints, floats)), t)
}

// freshVal creates an unconstrained value of Go type t (with well-formedness assumptions).
func (c *Ctx) freshVal(prefix string, t types.Type, ints, floats string) *Val {
	switch classify(t) {
	case TSlice:
		v := &Val{K: VSlice, Typ: t,
			Arr: c.fresh(prefix+"$arr", SInt), Off: c.fresh(prefix+"$off", SInt),
			Len: c.fresh(prefix+"$len", SInt), Cap: c.fresh(prefix+"$cap", SInt)}
		c.assumeWF(v, ints)
		return v
	case TStruct:
		st := t.Underlying().(*types.Struct)
		ints, floats = c.structModes(t, ints, floats)
		v := &Val{K: VStruct, Typ: t, F: map[string]*Val{}}
		for i := 0; i < st.NumFields(); i++ {
			f := st.Field(i)
			v.F[f.Name()] = c.freshVal(prefix+"."+f.Name(), f.Type(), ints, floats)
		}
		return v
	case TArray:
		at := t.Underlying().(*types.Array)
		es := scalarSort(at.Elem(), ints, floats)
		return &Val{K: VArray, Typ: t, N: at.Len(), T: c.fresh(prefix, ArrSort(SInt, es))}
	case TFunc:
		return &Val{K: VFunc, Typ: t, Fn: &FuncVal{Sig: t.Underlying().(*types.Signature)}}
	case TTuple:
		tt := t.(*types.Tuple)
		v := &Val{K: VTuple, Typ: t}
		for i := 0; i < tt.Len(); i++ {
			v.Elems = append(v.Elems, c.freshVal(fmt.Sprintf("%s.%d", prefix, i), tt.At(i).Type(), ints, floats))
		}
		return v
	}
	v := Scalar(c.fresh(prefix, scalarSort(t, ints, floats)), t)
	c.assumeWF(v, ints)
	return v
}

// assumeWF adds language-level well-formedness facts about a value.
func (c *Ctx) assumeWF(v *Val, ints string) { c.assumeWFTop(v, ints, c.St.Top) }

// assumeWFTop: well-formedness with respect to a given allocation frontier (values read from an earlier heap
// were allocated before that heap's frontier).
func (c *Ctx) assumeWFTop(v *Val, ints string, top Term) {
	if v == nil {
		return
	}
	add := func(t Term) {
		if c.wfSeen[t.S] {
			return
		}
		c.wfSeen[t.S] = true
		c.assume(t)
	}
	switch v.K {
	case VSlice:
		if v.Len.C != nil && v.Cap.C != nil && v.Arr.C != nil {
			return
		}
		key := "wf:" + v.Arr.S + v.Off.S + v.Len.S + v.Cap.S + top.S
		if c.wfSeen[key] {
			return
		}
		c.wfSeen[key] = true
		c.assume(And(Le(IntLit(0), v.Off), Le(IntLit(0), v.Len), Le(v.Len, v.Cap), Le(IntLit(0), v.Arr), Lt(v.Arr, top),
			Le(Add(v.Off, v.Cap), IntLitBig(maxI64)),
			Implies(Eq(v.Arr, IntLit(0)), And(Eq(v.Cap, IntLit(0)), Eq(v.Off, IntLit(0))))))
	case VScalar:
		if v.Typ == nil || v.T.C != nil || v.T.B != nil {
			return
		}
		switch classify(v.Typ) {
		case TInt:
			if v.T.Sort == SInt {
				add(intRangeOf(v.Typ).InRange(v.T))
			}
		case TRef, TCell:
			if _, isIface := v.Typ.Underlying().(*types.Interface); isIface {
				// interface values may hold package-level objects (errors.New variables, io.EOF), which have
				// negative static identities
				add(Lt(v.T, top))
			} else {
				add(And(Le(IntLit(0), v.T), Lt(v.T, top)))
			}
			// typing invariant: a non-nil *T, T a struct no other struct embeds, is a whole object of dynamic type *T
			if pt, ok := v.Typ.(*types.Pointer); ok {
				if nt, ok := pt.Elem().(*types.Named); ok {
					if _, isStruct := nt.Underlying().(*types.Struct); isStruct && len(c.E.embedders(nt)) == 0 {
						add(Implies(Not(Eq(v.T, IntLit(0))), Eq(App(SInt, "dyntype", v.T), IntLit(int64(c.E.typeTag(namedKey(nt)))))))
					}
				}
			}
		}
	case VStruct:
		for _, f := range v.F {
			c.assumeWFTop(f, ints, top)
		}
	}
}

// alloc returns a fresh identifier (object or array) and advances the allocation frontier.
func (c *Ctx) alloc(prefix string) Term {
	id := c.fresh(prefix, SInt)
	c.assume(Eq(id, c.St.Top))
	nt := c.fresh("top", SInt)
	c.assume(Eq(nt, Add(id, IntLit(1))))
	c.St.Top = nt
	return id
}

// field key and access ---------------------------------------------------------

func fieldBase(owner *types.Named, field string) string {
	return "fld$" + namedKey(owner) + "." + field
}

// loadField reads field f of the struct object referenced by ref (owner = struct type declaring the field).
func (c *Ctx) loadField(heap map[string]Term, ref Term, owner *types.Named, f *types.Var) *Val {
	ints, floats := c.E.pkgModes(owner.Obj().Pkg())
	v := c.load(heap, fieldBase(owner, f.Name()), []Term{ref}, f.Type(), ints, floats)
	if heap == nil {
		c.assumeWF(v, ints)
	} else if c.Fr != nil && c.Fr.OldTop.S != "" {
		c.assumeWFTop(v, ints, c.Fr.OldTop)
	}
	return v
}

func (c *Ctx) storeField(ref Term, owner *types.Named, f *types.Var, v *Val) {
	ints, floats := c.E.pkgModes(owner.Obj().Pkg())
	if c.E.immutableHeap(fieldBase(owner, f.Name())) {
		if root := c.rootFrame(); root != nil && root.OldTop.S != "" {
			c.assert("immutable-write", "", Le(root.OldTop, ref), "fields of an immutable type are written only while the object is being constructed", nil)
		}
	}
	c.store(fieldBase(owner, f.Name()), []Term{ref}, f.Type(), v, ints, floats)
}

func elemBase(elem types.Type) string { return "arr$" + typeKey(elem) }

// modeSuffix distinguishes heap arrays whose scalar representation depends on the verification modes.
func modeSuffix(t types.Type, ints, floats string) string {
	hasF, hasFixed := false, false
	var walk func(t types.Type, d int)
	walk = func(t types.Type, d int) {
		if d > 4 {
			return
		}
		switch classify(t) {
		case TFloat:
			hasF = true
		case TInt:
			if !isPlainInt(t) {
				hasFixed = true
			}
		case TStruct:
			st := t.Underlying().(*types.Struct)
			for i := 0; i < st.NumFields(); i++ {
				walk(st.Field(i).Type(), d+1)
			}
		case TArray:
			walk(t.Underlying().(*types.Array).Elem(), d+1)
		}
	}
	walk(t, 0)
	s := ""
	if hasF && floats != "real" {
		s += "@" + floats
	}
	if hasFixed && ints == "bv" {
		s += "@bv"
	}
	return s
}

func (c *Ctx) elemModes(elem types.Type) (string, string) {
	// element representation follows the current frame's modes for basic types,
	// and the declaring package for named struct types
	if n, ok := elem.(*types.Named); ok && n.Obj().Pkg() != nil {
		if _, isStruct := n.Underlying().(*types.Struct); isStruct {
			return c.E.pkgModes(n.Obj().Pkg())
		}
	}
	return c.Fr.Ints, c.Fr.Floats
}

func (c *Ctx) loadElem(heap map[string]Term, arr, idx Term, elem types.Type) *Val {
	ints, floats := c.elemModes(elem)
	v := c.load(heap, elemBase(elem)+modeSuffix(elem, ints, floats), []Term{arr, idx}, elem, ints, floats)
	if heap == nil {
		c.assumeWF(v, ints)
	}
	return v
}

func (c *Ctx) storeElem(arr, idx Term, elem types.Type, v *Val) {
	ints, floats := c.elemModes(elem)
	c.store(elemBase(elem)+modeSuffix(elem, ints, floats), []Term{arr, idx}, elem, v, ints, floats)
}

// contentsOf returns the (Array Int S) contents of the backing array of a slice with scalar elements.
func (c *Ctx) contentsOf(heap map[string]Term, sl *Val) Term {
	elem := sl.Typ.Underlying().(*types.Slice).Elem()
	ints, floats := c.elemModes(elem)
	s := scalarSort(elem, ints, floats)
	name := elemBase(elem) + modeSuffix(elem, ints, floats)
	var h Term
	if heap == nil {
		h = c.heapArr(name, nestedArr(2, s))
	} else {
		h = c.heapArrIn(heap, name, nestedArr(2, s))
	}
	return Select(h, sl.Arr)
}

func (c *Ctx) setContents(sl *Val, contents Term) {
	elem := sl.Typ.Underlying().(*types.Slice).Elem()
	ints, floats := c.elemModes(elem)
	s := scalarSort(elem, ints, floats)
	name := elemBase(elem) + modeSuffix(elem, ints, floats)
	h := c.heapArr(name, nestedArr(2, s))
	c.setHeap(name, Store(h, sl.Arr, contents))
}

func cellBase(elem types.Type) string { return "cell$" + typeKey(elem) }

// structCell: a variable of named struct type whose address is taken is an ordinary object (field arrays), so
// that &v is a reference like any other.
func structCell(elem types.Type) (*types.Named, bool) {
	if nt, ok := elem.(*types.Named); ok {
		if _, isStruct := nt.Underlying().(*types.Struct); isStruct {
			return nt, true
		}
	}
	return nil, false
}

func (c *Ctx) loadCell(heap map[string]Term, ref Term, elem types.Type) *Val {
	if nt, ok := structCell(elem); ok {
		v := c.load(heap, "fld$"+namedKey(nt), []Term{ref}, elem, c.Fr.Ints, c.Fr.Floats)
		if heap == nil {
			c.assumeWF(v, c.Fr.Ints)
		}
		return v
	}
	v := c.load(heap, cellBase(elem)+modeSuffix(elem, c.Fr.Ints, c.Fr.Floats), []Term{ref}, elem, c.Fr.Ints, c.Fr.Floats)
	if heap == nil {
		c.assumeWF(v, c.Fr.Ints)
	}
	return v
}

func (c *Ctx) storeCell(ref Term, elem types.Type, v *Val) {
	if nt, ok := structCell(elem); ok {
		c.store("fld$"+namedKey(nt), []Term{ref}, elem, v, c.Fr.Ints, c.Fr.Floats)
		return
	}
	c.store(cellBase(elem)+modeSuffix(elem, c.Fr.Ints, c.Fr.Floats), []Term{ref}, elem, v, c.Fr.Ints, c.Fr.Floats)
}

// LoadPrelude reads code-independent lemma libraries (/verif/prelude/*.spec) into the pseudo-package "prelude".
func (e *Engine) LoadPrelude(dir string) error {
	files, _ := filepath.Glob(filepath.Join(dir, "*.spec"))
	if len(files) == 0 {
		return nil
	}
	spec, err := LoadContracts("prelude", files)
	if err != nil {
		return err
	}
	var host *PkgInfo
	for _, n := range []string{"store", "encoding", "ddsketch"} {
		if p := e.Pkgs[n]; p != nil {
			host = p
			break
		}
	}
	if host == nil {
		return fmt.Errorf("no host package for the prelude")
	}
	pi := &PkgInfo{P: host.P, Name: "prelude", Spec: spec, FuncDecls: map[*types.Func]*ast.FuncDecl{}, FuncNames: map[string]*types.Func{}, FileOf: map[*types.Func]*ast.File{}}
	e.Pkgs["prelude"] = pi
	return nil
}

// IsInterfaceMethod reports whether "Type.Method" names a method of an interface type of the package.
func (e *Engine) IsInterfaceMethod(pi *PkgInfo, key string) bool {
	i := strings.Index(key, ".")
	if i < 0 {
		return false
	}
	tn, ok := pi.P.Types.Scope().Lookup(key[:i]).(*types.TypeName)
	if !ok {
		return false
	}
	it, ok := tn.Type().Underlying().(*types.Interface)
	if !ok {
		return false
	}
	for k := 0; k < it.NumMethods(); k++ {
		if it.Method(k).Name() == key[i+1:] {
			return true
		}
	}
	return false
}

// Assumptions lists the standing assumptions of the verification (DESIGN section 6).
func (e *Engine) Assumptions(prop string) []string {
	return append(append([]string{}, e.LocalAssumptions...), []string{
		"A-GEN: the VC generator's semantics of the Go subset (DESIGN 2.2), the SMT solvers",
		"A-REAL: float64 arithmetic on weights/values is real arithmetic in packages verified in `real`/`ext` mode (ext adds NaN and the infinities, -0 identified with +0)",
		"A-LIB: trusted models of append/copy/make, sort.Ints/Float64s, errors.New, math.*, math/bits, encoding/binary (internal/vc/lib.go)",
		"A-DOM: receivers are non-nil; allocation never fails; re-slicing beyond len is outside the subset (checked as an obligation)",
		"A-SEQ: no concurrent use of a sketch/store; Bins() goroutines are not modelled",
	}...)
}

// Refinements generates the refinement checks of every implementation of an interface method under contract.
func (e *Engine) Refinements(pi *PkgInfo, key string, ict *Contract, only string) []*FuncResult {
	i := strings.Index(key, ".")
	tn, _ := pi.P.Types.Scope().Lookup(key[:i]).(*types.TypeName)
	if tn == nil {
		return nil
	}
	it, _ := tn.Type().Underlying().(*types.Interface)
	if it == nil {
		return nil
	}
	var ifn *types.Func
	for k := 0; k < it.NumMethods(); k++ {
		if it.Method(k).Name() == key[i+1:] {
			ifn = it.Method(k)
		}
	}
	if ifn == nil {
		return nil
	}
	var out []*FuncResult
	for _, n := range e.implementers(it) {
		ipi := e.ByPath[n.Obj().Pkg().Path()]
		if ipi == nil {
			continue
		}
		// the method actually selected for *T (may be promoted from an embedded struct)
		obj, _, _ := types.LookupFieldOrMethod(types.NewPointer(n), true, n.Obj().Pkg(), key[i+1:])
		mfn, _ := obj.(*types.Func)
		if mfn == nil {
			continue
		}
		mct := e.contractOf(mfn)
		if mct != nil {
			if mpi := e.ByPath[mfn.Pkg().Path()]; mpi != nil {
				e.Called[mpi.Name+"."+mct.Name] = true
			}
		}
		name := fmt.Sprintf("%s.%s/refines(%s)", ipi.Name, n.Obj().Name()+"."+key[i+1:], ict.Name)
		if only != "" && !strings.Contains(name, only) {
			continue
		}
		if mct == nil {
			// implementations without a contract are not (yet) claimed: listed, not failed
			out = append(out, &FuncResult{Name: name, Pkg: ipi.Name, Trusted: "NOT UNDER CONTRACT: implementation " + funcKey(mfn) + " has no contract of its own: where the interface invariant admits this dynamic type the interface contract is ASSUMED for it", Serves: ict.Serves})
			continue
		}
		if !e.invCovers(pi, n) {
			out = append(out, &FuncResult{Name: name, Pkg: ipi.Name, Trusted: "dynamic type not yet covered by the interface invariant", Serves: ict.Serves})
			continue
		}
		out = append(out, e.VerifyRefinement(pi, ifn, ict, n, mfn, mct))
	}
	return out
}

// invCovers: refinement is only meaningful for dynamic types the interface invariant admits; a marker spec
// function `Covers$T` declares them.
func (e *Engine) invCovers(pi *PkgInfo, n *types.Named) bool {
	_, ok := pi.Spec.Funs["Covers$"+n.Obj().Name()]
	return ok
}


func (e *Engine) noteAssumption(s string) {
	if e.assumeSeen == nil {
		e.assumeSeen = map[string]bool{}
	}
	if !e.assumeSeen[s] {
		e.assumeSeen[s] = true
		e.LocalAssumptions = append(e.LocalAssumptions, s)
	}
}
