package vc

// SMT-LIB term construction with light constant folding.

import (
	"fmt"
	"math"
	"math/big"
	"sort"
	"strings"
)

type Sort string

const (
	SInt  Sort = "Int"
	SReal Sort = "Real"
	SBool Sort = "Bool"
	SF    Sort = "XF"                      // extended real: finite real | +inf | -inf | nan
	SFP   Sort = "(_ FloatingPoint 11 53)" // IEEE binary64
	SBV64 Sort = "(_ BitVec 64)"
	SBV32 Sort = "(_ BitVec 32)"
	SBV8  Sort = "(_ BitVec 8)"
)

func ArrSort(idx, elem Sort) Sort { return Sort("(Array " + string(idx) + " " + string(elem) + ")") }

func (s Sort) IsArray() bool { return strings.HasPrefix(string(s), "(Array ") }
func (s Sort) IsBV() bool    { return strings.HasPrefix(string(s), "(_ BitVec ") }
func (s Sort) BVWidth() int {
	var w int
	fmt.Sscanf(string(s), "(_ BitVec %d)", &w)
	return w
}
func BVSort(w int) Sort { return Sort(fmt.Sprintf("(_ BitVec %d)", w)) }

// ElemSort of an array sort "(Array I E)".
func (s Sort) ElemSort() Sort {
	str := string(s)
	str = str[len("(Array ") : len(str)-1]
	// index sort is a balanced s-expr or atom
	i := skipSexp(str, 0)
	return Sort(strings.TrimSpace(str[i:]))
}
func (s Sort) IndexSort() Sort {
	str := string(s)
	str = str[len("(Array ") : len(str)-1]
	i := skipSexp(str, 0)
	return Sort(strings.TrimSpace(str[:i]))
}
func skipSexp(s string, i int) int {
	for i < len(s) && s[i] == ' ' {
		i++
	}
	if i < len(s) && s[i] == '(' {
		d := 0
		for ; i < len(s); i++ {
			if s[i] == '(' {
				d++
			} else if s[i] == ')' {
				d--
				if d == 0 {
					return i + 1
				}
			}
		}
		return i
	}
	for i < len(s) && s[i] != ' ' {
		i++
	}
	return i
}

type Term struct {
	S    string
	Sort Sort
	C    *big.Int // constant integer value (Int or BV sorts)
	B    *bool    // constant boolean
	R    *big.Rat // constant real value
	F    *float64 // constant binary64 value
	Conj []Term   // for conjunctions: the conjuncts (used to split proof goals)
	Imp  []Term   // for implications: antecedent and consequent
}

func (t Term) String() string { return t.S }
func (t Term) IsConst() bool  { return t.C != nil || t.B != nil }

func IntLit(n int64) Term { return IntLitBig(big.NewInt(n)) }
func IntLitBig(n *big.Int) Term {
	s := n.String()
	if n.Sign() < 0 {
		s = "(- " + new(big.Int).Neg(n).String() + ")"
	}
	return Term{S: s, Sort: SInt, C: new(big.Int).Set(n)}
}
func RealLitRat(r *big.Rat) Term {
	num, den := r.Num(), r.Denom()
	neg := num.Sign() < 0
	an := new(big.Int).Abs(num)
	var s string
	if den.Cmp(big.NewInt(1)) == 0 {
		s = an.String() + ".0"
	} else {
		s = "(/ " + an.String() + ".0 " + den.String() + ".0)"
	}
	if neg {
		s = "(- " + s + ")"
	}
	return Term{S: s, Sort: SReal, R: new(big.Rat).Set(r)}
}
func RealLitInt(n int64) Term { return RealLitRat(new(big.Rat).SetInt64(n)) }
func BoolLit(b bool) Term {
	if b {
		return Term{S: "true", Sort: SBool, B: &b}
	}
	return Term{S: "false", Sort: SBool, B: &b}
}
func BVLit(v *big.Int, w int) Term {
	m := new(big.Int).Lsh(big.NewInt(1), uint(w))
	x := new(big.Int).Mod(v, m)
	return Term{S: fmt.Sprintf("(_ bv%s %d)", x.String(), w), Sort: BVSort(w), C: x}
}

var True, False = BoolLit(true), BoolLit(false)

func App(sort Sort, f string, args ...Term) Term {
	if len(args) == 0 {
		return Term{S: f, Sort: sort}
	}
	var b strings.Builder
	b.WriteString("(")
	b.WriteString(f)
	for _, a := range args {
		b.WriteString(" ")
		b.WriteString(a.S)
	}
	b.WriteString(")")
	return Term{S: b.String(), Sort: sort}
}

func Not(a Term) Term {
	if a.B != nil {
		return BoolLit(!*a.B)
	}
	if strings.HasPrefix(a.S, "(not ") {
		return Term{S: a.S[5 : len(a.S)-1], Sort: SBool}
	}
	return App(SBool, "not", a)
}
func And(ts ...Term) Term {
	var keep []Term
	for _, t := range ts {
		if t.B != nil {
			if !*t.B {
				return False
			}
			continue
		}
		keep = append(keep, t)
	}
	switch len(keep) {
	case 0:
		return True
	case 1:
		return keep[0]
	}
	t := App(SBool, "and", keep...)
	t.Conj = keep
	return t
}
func Or(ts ...Term) Term {
	var keep []Term
	for _, t := range ts {
		if t.B != nil {
			if *t.B {
				return True
			}
			continue
		}
		keep = append(keep, t)
	}
	switch len(keep) {
	case 0:
		return False
	case 1:
		return keep[0]
	}
	return App(SBool, "or", keep...)
}
func Implies(a, b Term) Term {
	if a.B != nil {
		if *a.B {
			return b
		}
		return True
	}
	if b.B != nil && *b.B {
		return True
	}
	t := App(SBool, "=>", a, b)
	t.Imp = []Term{a, b}
	return t
}
func Iff(a, b Term) Term { return Eq(a, b) }
func Eq(a, b Term) Term {
	if a.Sort != b.Sort {
		a, b = promote(a, b)
	}
	if a.C != nil && b.C != nil && a.Sort == b.Sort {
		return BoolLit(a.C.Cmp(b.C) == 0)
	}
	if a.B != nil && b.B != nil {
		return BoolLit(*a.B == *b.B)
	}
	if a.S == b.S {
		return True
	}
	if a.Sort == SFP {
		return App(SBool, "fp.eq", a, b) // Go == on floats is IEEE equality
	}
	if a.Sort == SF {
		return App(SBool, "xf.eq", a, b)
	}
	return App(SBool, "=", a, b)
}

// StructEq is structural (SMT) equality, also for float sorts.
func StructEq(a, b Term) Term {
	if a.Sort != b.Sort {
		a, b = promote(a, b)
	}
	if a.S == b.S {
		return True
	}
	return App(SBool, "=", a, b)
}
func Ite(c, a, b Term) Term {
	if c.B != nil {
		if *c.B {
			return a
		}
		return b
	}
	if a.Sort != b.Sort {
		a, b = promote(a, b)
	}
	if a.S == b.S {
		return a
	}
	if a.Sort == SBool && (len(a.Conj) > 1 || len(a.Imp) == 2 || len(b.Conj) > 1 || len(b.Imp) == 2) {
		// a boolean case split over structured formulas keeps its structure (goal splitting, hypothesis slicing)
		return And(Implies(c, a), Implies(Not(c), b))
	}
	return App(a.Sort, "ite", c, a, b)
}

// promote Int to Real when mixed.
func promote(a, b Term) (Term, Term) {
	if a.Sort == SInt && b.Sort == SReal {
		return ToReal(a), b
	}
	if a.Sort == SReal && b.Sort == SInt {
		return a, ToReal(b)
	}
	return a, b
}

func ToReal(a Term) Term {
	if a.Sort == SReal {
		return a
	}
	if a.C != nil {
		return RealLitRat(new(big.Rat).SetInt(a.C))
	}
	return App(SReal, "to_real", a)
}

func arith(op string, a, b Term) Term {
	a, b = promote(a, b)
	if a.Sort == SInt && a.C != nil && b.C != nil {
		r := new(big.Int)
		switch op {
		case "+":
			return IntLitBig(r.Add(a.C, b.C))
		case "-":
			return IntLitBig(r.Sub(a.C, b.C))
		case "*":
			return IntLitBig(r.Mul(a.C, b.C))
		}
	}
	if a.Sort == SInt {
		switch op {
		case "+":
			if b.C != nil && b.C.Sign() == 0 {
				return a
			}
			if a.C != nil && a.C.Sign() == 0 {
				return b
			}
		case "-":
			if b.C != nil && b.C.Sign() == 0 {
				return a
			}
		case "*":
			if b.C != nil && b.C.Cmp(big.NewInt(1)) == 0 {
				return a
			}
			if a.C != nil && a.C.Cmp(big.NewInt(1)) == 0 {
				return b
			}
		}
	}
	return App(a.Sort, op, a, b)
}
func Add(a, b Term) Term { return arith("+", a, b) }
func Sub(a, b Term) Term { return arith("-", a, b) }
func Mul(a, b Term) Term { return arith("*", a, b) }
func Neg(a Term) Term {
	if a.C != nil && a.Sort == SInt {
		return IntLitBig(new(big.Int).Neg(a.C))
	}
	return App(a.Sort, "-", a)
}
func RealDiv(a, b Term) Term { return App(SReal, "/", ToReal(a), ToReal(b)) }

// IntDivFloor / IntModFloor: SMT-LIB div/mod (floor for positive divisor).
func IntDiv(a, b Term) Term {
	if a.C != nil && b.C != nil && b.C.Sign() > 0 {
		q := new(big.Int)
		m := new(big.Int)
		q.DivMod(a.C, b.C, m) // Euclidean: m >= 0
		return IntLitBig(q)
	}
	return App(SInt, "div", a, b)
}
func IntMod(a, b Term) Term {
	if a.C != nil && b.C != nil && b.C.Sign() > 0 {
		m := new(big.Int).Mod(a.C, b.C)
		return IntLitBig(m)
	}
	return App(SInt, "mod", a, b)
}

func cmp(op string, a, b Term) Term {
	a, b = promote(a, b)
	if a.C != nil && b.C != nil && a.Sort == SInt {
		c := a.C.Cmp(b.C)
		switch op {
		case "<":
			return BoolLit(c < 0)
		case "<=":
			return BoolLit(c <= 0)
		case ">":
			return BoolLit(c > 0)
		case ">=":
			return BoolLit(c >= 0)
		}
	}
	return App(SBool, op, a, b)
}
func Lt(a, b Term) Term { return cmp("<", a, b) }
func Le(a, b Term) Term { return cmp("<=", a, b) }
func Gt(a, b Term) Term { return cmp(">", a, b) }
func Ge(a, b Term) Term { return cmp(">=", a, b) }

func Select(arr, idx Term) Term {
	return App(arr.Sort.ElemSort(), "select", arr, idx)
}
func Store(arr, idx, v Term) Term {
	es := arr.Sort.ElemSort()
	if v.Sort != es {
		if es == SReal && v.Sort == SInt {
			v = ToReal(v)
		}
	}
	return App(arr.Sort, "store", arr, idx, v)
}
func ConstArray(idx, elem Sort, v Term) Term {
	s := ArrSort(idx, elem)
	return Term{S: "((as const " + string(s) + ") " + v.S + ")", Sort: s}
}

func Forall(vars []Term, body Term, pats ...[]Term) Term {
	return quant("forall", vars, body, pats)
}
func Exists(vars []Term, body Term, pats ...[]Term) Term {
	return quant("exists", vars, body, pats)
}
func quant(q string, vars []Term, body Term, pats [][]Term) Term {
	if len(vars) == 0 {
		return body
	}
	if body.B != nil {
		return body
	}
	var b strings.Builder
	b.WriteString("(" + q + " (")
	for _, v := range vars {
		b.WriteString("(" + v.S + " " + string(v.Sort) + ")")
	}
	b.WriteString(") ")
	if len(pats) > 0 {
		b.WriteString("(! " + body.S)
		for _, p := range pats {
			b.WriteString(" :pattern (")
			for i, t := range p {
				if i > 0 {
					b.WriteString(" ")
				}
				b.WriteString(t.S)
			}
			b.WriteString(")")
		}
		b.WriteString(")")
	} else {
		b.WriteString(body.S)
	}
	b.WriteString(")")
	return Term{S: b.String(), Sort: SBool}
}

// ---------------------------------------------------------------- machine integers over Int

var (
	two63  = new(big.Int).Lsh(big.NewInt(1), 63)
	two64  = new(big.Int).Lsh(big.NewInt(1), 64)
	two32  = new(big.Int).Lsh(big.NewInt(1), 32)
	two31  = new(big.Int).Lsh(big.NewInt(1), 31)
	maxI64 = new(big.Int).Sub(two63, big.NewInt(1))
	minI64 = new(big.Int).Neg(two63)
)

// IntRange describes a machine integer type modelled over Int.
type IntRange struct {
	Bits   int
	Signed bool
}

func (r IntRange) Min() *big.Int {
	if !r.Signed {
		return big.NewInt(0)
	}
	return new(big.Int).Neg(new(big.Int).Lsh(big.NewInt(1), uint(r.Bits-1)))
}
func (r IntRange) Max() *big.Int {
	if !r.Signed {
		return new(big.Int).Sub(new(big.Int).Lsh(big.NewInt(1), uint(r.Bits)), big.NewInt(1))
	}
	return new(big.Int).Sub(new(big.Int).Lsh(big.NewInt(1), uint(r.Bits-1)), big.NewInt(1))
}
func (r IntRange) WrapName() string {
	if r.Signed {
		return fmt.Sprintf("wrapS%d", r.Bits)
	}
	return fmt.Sprintf("wrapU%d", r.Bits)
}

// Wrap reduces a mathematical integer to the machine range (two's complement).
func (r IntRange) Wrap(t Term) Term {
	if t.C != nil {
		m := new(big.Int).Lsh(big.NewInt(1), uint(r.Bits))
		v := new(big.Int).Mod(t.C, m)
		if r.Signed && v.Cmp(r.Max()) > 0 {
			v.Sub(v, m)
		}
		return IntLitBig(v)
	}
	return App(SInt, r.WrapName(), t)
}
func (r IntRange) InRange(t Term) Term {
	return And(Le(IntLitBig(r.Min()), t), Le(t, IntLitBig(r.Max())))
}

const preludeInts = `
(define-fun wrapS64 ((x Int)) Int (ite (and (<= (- 9223372036854775808) x) (<= x 9223372036854775807)) x (- (mod (+ x 9223372036854775808) 18446744073709551616) 9223372036854775808)))
(define-fun wrapU64 ((x Int)) Int (ite (and (<= 0 x) (<= x 18446744073709551615)) x (mod x 18446744073709551616)))
(define-fun wrapS32 ((x Int)) Int (ite (and (<= (- 2147483648) x) (<= x 2147483647)) x (- (mod (+ x 2147483648) 4294967296) 2147483648)))
(define-fun wrapU32 ((x Int)) Int (ite (and (<= 0 x) (<= x 4294967295)) x (mod x 4294967296)))
(define-fun wrapS16 ((x Int)) Int (ite (and (<= (- 32768) x) (<= x 32767)) x (- (mod (+ x 32768) 65536) 32768)))
(define-fun wrapU16 ((x Int)) Int (mod x 65536))
(define-fun wrapS8 ((x Int)) Int (ite (and (<= (- 128) x) (<= x 127)) x (- (mod (+ x 128) 256) 128)))
(define-fun wrapU8 ((x Int)) Int (mod x 256))
(define-fun trunc ((x Real)) Int (ite (>= x 0.0) (to_int x) (- (to_int (- x)))))
(define-fun floorR ((x Real)) Real (to_real (to_int x)))
(define-fun ceilR ((x Real)) Real (- (to_real (to_int (- x)))))
(define-fun absR ((x Real)) Real (ite (>= x 0.0) x (- x)))
(define-fun minR ((x Real) (y Real)) Real (ite (<= x y) x y))
(define-fun maxR ((x Real) (y Real)) Real (ite (>= x y) x y))
(define-fun minI ((x Int) (y Int)) Int (ite (<= x y) x y))
(define-fun maxI ((x Int) (y Int)) Int (ite (>= x y) x y))
(define-fun pow2 ((k Int)) Int (ite (= k 0) 1 (ite (= k 1) 2 (ite (= k 2) 4 (ite (= k 3) 8 (ite (= k 4) 16 (ite (= k 5) 32 (ite (= k 6) 64 (ite (= k 7) 128 (ite (= k 8) 256 (ite (= k 9) 512 (ite (= k 10) 1024 0))))))))))))
(declare-fun bandI (Int Int) Int)
(assert (forall ((a Int)) (! (= (bandI a 1) (mod a 2)) :pattern ((bandI a 1)))))
(assert (forall ((a Int)) (! (= (bandI a 3) (mod a 4)) :pattern ((bandI a 3)))))
(assert (forall ((a Int)) (! (= (bandI a 7) (mod a 8)) :pattern ((bandI a 7)))))
(assert (forall ((a Int)) (! (= (bandI a 15) (mod a 16)) :pattern ((bandI a 15)))))
(assert (forall ((a Int)) (! (= (bandI a 31) (mod a 32)) :pattern ((bandI a 31)))))
(assert (forall ((a Int)) (! (= (bandI a 63) (mod a 64)) :pattern ((bandI a 63)))))
(assert (forall ((a Int)) (! (= (bandI a 127) (mod a 128)) :pattern ((bandI a 127)))))
(assert (forall ((a Int)) (! (= (bandI a 255) (mod a 256)) :pattern ((bandI a 255)))))
(assert (forall ((a Int)) (! (= (bandI a 511) (mod a 512)) :pattern ((bandI a 511)))))
(assert (forall ((a Int)) (! (= (bandI a 1023) (mod a 1024)) :pattern ((bandI a 1023)))))
(declare-fun dyntype (Int) Int)
`

// extended reals: a finite real or one of the three IEEE specials. -0 is identified with +0.
const preludeXF = `
(declare-datatypes ((XF 0)) (((xfin (xval Real)) (xpinf) (xninf) (xnan))))
(define-fun xf.isnan ((a XF)) Bool ((_ is xnan) a))
(define-fun xf.isfin ((a XF)) Bool ((_ is xfin) a))
(define-fun xf.isinf ((a XF)) Bool (or ((_ is xpinf) a) ((_ is xninf) a)))
(define-fun xf.lt ((a XF) (b XF)) Bool
  (and (not ((_ is xnan) a)) (not ((_ is xnan) b))
       (or (and ((_ is xninf) a) (not ((_ is xninf) b)))
           (and ((_ is xpinf) b) (not ((_ is xpinf) a)))
           (and ((_ is xfin) a) ((_ is xfin) b) (< (xval a) (xval b))))))
(define-fun xf.eq ((a XF) (b XF)) Bool (and (not ((_ is xnan) a)) (= a b)))
(define-fun xf.le ((a XF) (b XF)) Bool (or (xf.lt a b) (xf.eq a b)))
(define-fun xf.neg ((a XF)) XF (ite ((_ is xfin) a) (xfin (- (xval a))) (ite ((_ is xpinf) a) xninf (ite ((_ is xninf) a) xpinf xnan))))
(define-fun xf.add ((a XF) (b XF)) XF
  (ite (or ((_ is xnan) a) ((_ is xnan) b)) xnan
  (ite (and ((_ is xfin) a) ((_ is xfin) b)) (xfin (+ (xval a) (xval b)))
  (ite ((_ is xfin) a) b
  (ite ((_ is xfin) b) a
  (ite (= a b) a xnan))))))
(define-fun xf.sub ((a XF) (b XF)) XF (xf.add a (xf.neg b)))
(define-fun xf.sgn ((a XF)) Int (ite ((_ is xpinf) a) 1 (ite ((_ is xninf) a) (- 1) (ite ((_ is xfin) a) (ite (> (xval a) 0.0) 1 (ite (< (xval a) 0.0) (- 1) 0)) 0))))
(define-fun xf.mul ((a XF) (b XF)) XF
  (ite (or ((_ is xnan) a) ((_ is xnan) b)) xnan
  (ite (and ((_ is xfin) a) ((_ is xfin) b)) (xfin (* (xval a) (xval b)))
  (ite (= (* (xf.sgn a) (xf.sgn b)) 0) xnan
  (ite (> (* (xf.sgn a) (xf.sgn b)) 0) xpinf xninf)))))
(define-fun xf.div ((a XF) (b XF)) XF
  (ite (or ((_ is xnan) a) ((_ is xnan) b)) xnan
  (ite (and ((_ is xfin) a) ((_ is xfin) b))
       (ite (not (= (xval b) 0.0)) (xfin (/ (xval a) (xval b)))
            (ite (= (xval a) 0.0) xnan (ite (> (xval a) 0.0) xpinf xninf)))
  (ite ((_ is xfin) a) (xfin 0.0)
  (ite ((_ is xfin) b) (ite (>= (* (xf.sgn a) (ite (>= (xval b) 0.0) 1 (- 1))) 0) xpinf xninf)
  xnan)))))
`

// BV helpers ------------------------------------------------------

func BVBin(op string, a, b Term) Term {
	if a.C != nil && b.C != nil {
		w := a.Sort.BVWidth()
		m := new(big.Int).Lsh(big.NewInt(1), uint(w))
		r := new(big.Int)
		ok := true
		switch op {
		case "bvadd":
			r.Add(a.C, b.C)
		case "bvsub":
			r.Sub(a.C, b.C)
		case "bvmul":
			r.Mul(a.C, b.C)
		case "bvand":
			r.And(a.C, b.C)
		case "bvor":
			r.Or(a.C, b.C)
		case "bvxor":
			r.Xor(a.C, b.C)
		case "bvshl":
			if b.C.Cmp(big.NewInt(int64(w))) >= 0 {
				r.SetInt64(0)
			} else {
				r.Lsh(a.C, uint(b.C.Int64()))
			}
		case "bvlshr":
			if b.C.Cmp(big.NewInt(int64(w))) >= 0 {
				r.SetInt64(0)
			} else {
				r.Rsh(a.C, uint(b.C.Int64()))
			}
		default:
			ok = false
		}
		if ok {
			r.Mod(r, m)
			return BVLit(r, w)
		}
	}
	return App(a.Sort, op, a, b)
}
func BVCmp(op string, a, b Term) Term {
	if a.C != nil && b.C != nil {
		switch op {
		case "bvult":
			return BoolLit(a.C.Cmp(b.C) < 0)
		case "bvule":
			return BoolLit(a.C.Cmp(b.C) <= 0)
		case "bvugt":
			return BoolLit(a.C.Cmp(b.C) > 0)
		case "bvuge":
			return BoolLit(a.C.Cmp(b.C) >= 0)
		}
	}
	return App(SBool, op, a, b)
}
func BVExtract(hi, lo int, a Term) Term {
	if a.C != nil {
		v := new(big.Int).Rsh(a.C, uint(lo))
		return BVLit(v, hi-lo+1)
	}
	return Term{S: fmt.Sprintf("((_ extract %d %d) %s)", hi, lo, a.S), Sort: BVSort(hi - lo + 1)}
}
func BVZeroExt(n int, a Term) Term {
	w := a.Sort.BVWidth()
	if n == 0 {
		return a
	}
	if a.C != nil {
		return BVLit(a.C, w+n)
	}
	return Term{S: fmt.Sprintf("((_ zero_extend %d) %s)", n, a.S), Sort: BVSort(w + n)}
}
func BVSignExt(n int, a Term) Term {
	w := a.Sort.BVWidth()
	if n == 0 {
		return a
	}
	if a.C != nil {
		v := new(big.Int).Set(a.C)
		if v.Bit(w-1) == 1 {
			v.Sub(v, new(big.Int).Lsh(big.NewInt(1), uint(w)))
		}
		return BVLit(v, w+n)
	}
	return Term{S: fmt.Sprintf("((_ sign_extend %d) %s)", n, a.S), Sort: BVSort(w + n)}
}

var bigOne = big.NewInt(1)

func sortStrings(s []string) { sort.Strings(s) }


// FPBin builds an IEEE binary64 operation (round to nearest even), folding constants with Go's own arithmetic.
func FPBin(op string, a, b Term) Term {
	if a.F != nil && b.F != nil {
		var r float64
		ok := true
		switch op {
		case "fp.add":
			r = *a.F + *b.F
		case "fp.sub":
			r = *a.F - *b.F
		case "fp.mul":
			r = *a.F * *b.F
		case "fp.div":
			r = *a.F / *b.F
		default:
			ok = false
		}
		if ok && r == r { // not NaN
			return FPLit(r)
		}
	}
	return App(SFP, op, Term{S: "RNE"}, a, b)
}

func FPLit(f float64) Term {
	b := math.Float64bits(f)
	ff := f
	return Term{S: fmt.Sprintf("(fp #b%01b #b%011b #b%052b)", b>>63, (b>>52)&0x7ff, b&((1<<52)-1)), Sort: SFP, F: &ff}
}

// FPFromBits: reinterpretation of a 64-bit vector as binary64.
func FPFromBits(x Term) Term {
	if x.C != nil {
		f := math.Float64frombits(x.C.Uint64())
		if f == f {
			return FPLit(f)
		}
	}
	return Term{S: "((_ to_fp 11 53) " + x.S + ")", Sort: SFP}
}

func BVRotl(x Term, n int) Term {
	w := x.Sort.BVWidth()
	n = ((n % w) + w) % w
	if n == 0 {
		return x
	}
	if x.C != nil {
		m := new(big.Int).Lsh(big.NewInt(1), uint(w))
		hi := new(big.Int).Lsh(x.C, uint(n))
		hi.Mod(hi, m)
		lo := new(big.Int).Rsh(x.C, uint(w-n))
		return BVLit(hi.Or(hi, lo), w)
	}
	return Term{S: fmt.Sprintf("((_ rotate_left %d) %s)", n, x.S), Sort: x.Sort}
}
