package vc

// Symbolic values, heap model and path state.

import (
	"fmt"
	"go/types"
	"sort"
	"strings"
)

type VKind int

const (
	VScalar  VKind = iota // Term of scalar sort (Int, Real, Bool, BV, FP, XF) or a reference (Int)
	VSlice                // (Arr, Off, Len, Cap)
	VStruct               // struct by value
	VTuple                // multiple results
	VFunc                 // function value (literal or declared)
	VPtrElem              // pointer to an element of a slice backing array
	VArray                // Go array by value: Term of array sort + static length
	VLogic                // logical array/set value (spec only)
)

type Val struct {
	K     VKind
	T     Term
	Arr   Term
	Off   Term
	Len   Term
	Cap   Term
	F     map[string]*Val
	Elems []*Val
	Fn    *FuncVal
	Typ   types.Type // Go type when known (nil for pure spec values)
	N     int64      // VArray length
	// VPtrElem: Arr = array id, Off = absolute index; Typ = pointer type
}

type FuncVal struct {
	Lit  interface{}  // *ast.FuncLit
	Decl *types.Func  // declared function
	Recv *Val         // bound receiver for method values
	Env  *Frame       // defining frame for literals (captured variables are shared)
	Sig  *types.Signature
}

func Scalar(t Term, typ types.Type) *Val { return &Val{K: VScalar, T: t, Typ: typ} }

func (v *Val) String() string {
	switch v.K {
	case VScalar, VArray, VLogic:
		return v.T.S
	case VSlice:
		return fmt.Sprintf("slice(%s,%s,%s,%s)", v.Arr.S, v.Off.S, v.Len.S, v.Cap.S)
	case VStruct:
		var ks []string
		for k := range v.F {
			ks = append(ks, k)
		}
		sort.Strings(ks)
		var parts []string
		for _, k := range ks {
			parts = append(parts, k+":"+v.F[k].String())
		}
		return "{" + strings.Join(parts, ",") + "}"
	case VTuple:
		var parts []string
		for _, e := range v.Elems {
			parts = append(parts, e.String())
		}
		return "(" + strings.Join(parts, ",") + ")"
	case VFunc:
		return "func"
	case VPtrElem:
		return fmt.Sprintf("&elem(%s,%s)", v.Arr.S, v.Off.S)
	}
	return "?"
}

// Frame is an activation record (also used, synthetically, to evaluate callee contracts).
type Frame struct {
	Fn       *types.Func
	Pkg      *PkgInfo
	Contract *Contract
	Vars     map[types.Object]*Val
	Boxed    map[types.Object]Term // variables whose address is taken: cell reference
	Entry    map[types.Object]*Val // parameter values at entry (for ensures)
	ByName   map[string][]types.Object
	Ghost    map[string]*Val
	OldHeap  map[string]Term
	OldTop   Term
	Results  []*Val
	ResultVars []types.Object // named results (or nil entries)
	Sig      *types.Signature
	Ints     string
	Floats   string
	InEnsures bool // parameter names denote entry values
	Parent   *Frame // for function literals: defining frame
	Caller   *Frame // for inlined calls: the calling frame
	boxSet   map[types.Object]bool // variables whose address is taken
	modEntries []ModEntry
	OldEpoch int
	ModSet   func(id Term, heapName string) Term // nil: unrestricted
	Ret      *Val   // set on return
}

func (f *Frame) lookupVar(o types.Object) (*Val, bool) {
	for fr := f; fr != nil; fr = fr.Parent {
		if v, ok := fr.Vars[o]; ok {
			return v, true
		}
	}
	return nil, false
}

func (f *Frame) setVar(o types.Object, v *Val) {
	for fr := f; fr != nil; fr = fr.Parent {
		if _, ok := fr.Vars[o]; ok {
			fr.Vars[o] = v
			return
		}
	}
	f.Vars[o] = v
}

func (f *Frame) declare(o types.Object, v *Val) {
	f.Vars[o] = v
	f.ByName[o.Name()] = append(f.ByName[o.Name()], o)
}

// State is the mutable symbolic state along one path.
type State struct {
	Heap map[string]Term
	Path []Term
	Top  Term // allocation frontier: every live object/array id is < Top, ids are > 0
	Epoch int // bumped when the whole heap is havocked (names the initial symbol of arrays touched later)
}

func (s *State) cloneHeap() map[string]Term {
	m := make(map[string]Term, len(s.Heap))
	for k, v := range s.Heap {
		m[k] = v
	}
	m["$epoch"] = IntLit(int64(s.Epoch))
	return m
}

type Obligation struct {
	Name    string // pkg.Func/kind[#n](label)
	Base    string // name without path suffix
	Func    string
	Kind    string
	Serves  []string
	Hyps    []Term
	Goal    Term
	Decls   []string
	Src     string // source clause text / position
	Pos     string
	PathID  string
	Status  string // "", "unsat", "sat", "unknown", "timeout"
	Solver  string
	Seconds float64
	Model   string
	SMT     string
	Vacuity bool // a satisfiability (must be sat) check rather than a validity check
	Parts   []*Obligation // for a grouped conjunction: the conjuncts, discharged one by one when the group does not go through
	ViaGroup bool
	CrossChecked int // thorough tier: number of other solvers that confirmed the answer
	AxiomsUsed []string
}
