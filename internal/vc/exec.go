package vc

// Symbolic execution of Go statements.

import (
	"fmt"
	"go/ast"
	"go/token"
	"go/types"
)

type flow int

const (
	flowNext flow = iota
	flowBreak
	flowContinue
	flowReturn
)

// LV is a resolved assignable location.
type LV struct {
	kind  string // var, field, elem, mapelem, cell, arrayvar, blank, structvar
	obj   *types.Var
	ref   Term
	owner *types.Named
	fld   *types.Var
	arr   Term
	idx   Term
	elemT types.Type
	mapT  *types.Map
	typ   types.Type
	inner *LV // for arrayvar / structvar: the variable holding the aggregate
	name  string
}

func (c *Ctx) resolveLV(e ast.Expr) *LV {
	switch x := e.(type) {
	case *ast.ParenExpr:
		return c.resolveLV(x.X)
	case *ast.Ident:
		if x.Name == "_" {
			return &LV{kind: "blank"}
		}
		o, _ := c.info().ObjectOf(x).(*types.Var)
		if o == nil {
			c.refuse("assignment to non-variable %s", x.Name)
		}
		return &LV{kind: "var", obj: o, typ: o.Type()}
	case *ast.SelectorExpr:
		sel := c.info().Selections[x]
		if sel == nil || sel.Kind() != types.FieldVal {
			c.refuse("unsupported assignment target %s", types.ExprString(e))
		}
		bt := c.typeOf(x.X)
		if _, isPtr := bt.Underlying().(*types.Pointer); !isPtr {
			// field of a struct-valued variable
			inner := c.resolveLV(x.X)
			if len(sel.Index()) != 1 {
				c.refuse("nested struct value field assignment")
			}
			return &LV{kind: "structvar", inner: inner, name: x.Sel.Name, typ: sel.Type()}
		}
		base := c.eval(x.X)
		ref, owner, f, sv := c.walkToField(nil, base, bt, sel.Index())
		if sv != nil {
			c.refuse("assignment into struct value reached through pointer")
		}
		return &LV{kind: "field", ref: ref, owner: owner, fld: f, typ: f.Type()}
	case *ast.IndexExpr:
		bt := c.typeOf(x.X)
		switch u := bt.Underlying().(type) {
		case *types.Slice:
			base := c.eval(x.X)
			i := c.eval(x.Index)
			c.assert("bounds", "", And(Le(IntLit(0), i.T), Lt(i.T, base.Len)), "index in range: "+types.ExprString(x), nil)
			return &LV{kind: "elem", arr: base.Arr, idx: Add(base.Off, i.T), elemT: u.Elem(), typ: u.Elem()}
		case *types.Map:
			base := c.eval(x.X)
			k := c.eval(x.Index)
			c.assert("nilmap", "", Not(Eq(base.T, IntLit(0))), "assignment to entry in nil map", nil)
			return &LV{kind: "mapelem", ref: base.T, idx: c.mapKey(k.T), mapT: u, typ: u.Elem()}
		case *types.Array:
			inner := c.resolveLV(x.X)
			i := c.eval(x.Index)
			if i.T.C == nil {
				c.assert("bounds", "", And(Le(IntLit(0), i.T), Lt(i.T, IntLit(u.Len()))), "index in range: "+types.ExprString(x), nil)
			}
			return &LV{kind: "arrayvar", inner: inner, idx: i.T, typ: u.Elem()}
		}
	case *ast.StarExpr:
		p := c.eval(x.X)
		pt := c.typeOf(x.X)
		elem := pt.Underlying().(*types.Pointer).Elem()
		if p.K == VPtrElem {
			return &LV{kind: "elem", arr: p.Arr, idx: p.Off, elemT: elem, typ: elem}
		}
		c.assert("nil", "", Not(Eq(p.T, IntLit(0))), "nil dereference", nil)
		if classify(pt) == TCell {
			return &LV{kind: "cell", ref: p.T, elemT: elem, typ: elem}
		}
		return &LV{kind: "structobj", ref: p.T, typ: elem}
	}
	c.refuse("unsupported assignment target %s", types.ExprString(e))
	return nil
}

func (c *Ctx) readLV(lv *LV) *Val {
	switch lv.kind {
	case "var":
		return c.readVar(lv.obj)
	case "field":
		return c.loadField(nil, lv.ref, lv.owner, lv.fld)
	case "elem":
		return c.loadElem(nil, lv.arr, lv.idx, lv.elemT)
	case "cell":
		return c.loadCell(nil, lv.ref, lv.elemT)
	case "mapelem":
		dom, val, _ := c.mapArrays(nil, lv.mapT)
		in := Select(Select(dom, lv.ref), lv.idx)
		v := Select(Select(val, lv.ref), lv.idx)
		return Scalar(Ite(in, v, c.zeroTerm(v.Sort)), lv.mapT.Elem())
	case "arrayvar":
		a := c.readLV(lv.inner)
		return Scalar(Select(a.T, lv.idx), lv.typ)
	case "structvar":
		s := c.readLV(lv.inner)
		return s.F[lv.name]
	case "structobj":
		return c.loadStructValue(nil, lv.ref, lv.typ)
	}
	c.refuse("cannot read location kind %s", lv.kind)
	return nil
}

func (c *Ctx) writeLV(lv *LV, v *Val) {
	switch lv.kind {
	case "blank":
	case "var":
		c.writeVar(lv.obj, v)
	case "field":
		c.checkWritable(lv.ref, fieldBase(lv.owner, lv.fld.Name()))
		c.storeField(lv.ref, lv.owner, lv.fld, v)
	case "elem":
		c.checkWritable(lv.arr, elemBase(lv.elemT))
		c.storeElem(lv.arr, lv.idx, lv.elemT, v)
	case "cell":
		c.checkWritable(lv.ref, cellBase(lv.elemT))
		c.storeCell(lv.ref, lv.elemT, v)
	case "mapelem":
		c.checkWritable(lv.ref, "map")
		dn, vn, ln := mapHeapNames(c, lv.mapT)
		dom, val, lens := c.mapArrays(nil, lv.mapT)
		d := Select(dom, lv.ref)
		was := Select(d, lv.idx)
		x := v.T
		if vs := val.Sort.ElemSort().ElemSort(); x.Sort != vs {
			x = c.coerce(x, vs)
		}
		c.setHeap(vn, Store(val, lv.ref, Store(Select(val, lv.ref), lv.idx, x)))
		c.setHeap(dn, Store(dom, lv.ref, Store(d, lv.idx, True)))
		c.setHeap(ln, Store(lens, lv.ref, Ite(was, Select(lens, lv.ref), Add(Select(lens, lv.ref), IntLit(1)))))
	case "arrayvar":
		a := c.readLV(lv.inner)
		x := v.T
		if es := a.T.Sort.ElemSort(); x.Sort != es {
			x = c.coerce(x, es)
		}
		c.writeLV(lv.inner, &Val{K: VArray, Typ: a.Typ, N: a.N, T: Store(a.T, lv.idx, x)})
	case "structvar":
		s := c.readLV(lv.inner)
		nf := map[string]*Val{}
		for k, fv := range s.F {
			nf[k] = fv
		}
		nf[lv.name] = v
		c.writeLV(lv.inner, &Val{K: VStruct, Typ: s.Typ, F: nf})
	case "structobj":
		c.checkWritable(lv.ref, "obj")
		c.storeStructValue(lv.ref, lv.typ, v)
	default:
		c.refuse("cannot write location kind %s", lv.kind)
	}
}

// checkWritable is a hook for write-effect tracking; the frame condition itself is checked at returns
// (every heap array is compared with its entry value outside the modifies set).
func (c *Ctx) checkWritable(id Term, heapName string) {}

func (c *Ctx) execBlock(stmts []ast.Stmt) flow {
	for _, s := range stmts {
		if f := c.execStmt(s); f != flowNext {
			return f
		}
	}
	return flowNext
}

func (c *Ctx) execStmt(s ast.Stmt) flow {
	if s.Pos().IsValid() {
		c.curPos = s.Pos()
	}
	switch x := s.(type) {
	case *ast.BlockStmt:
		return c.execBlock(x.List)
	case *ast.EmptyStmt:
		return flowNext
	case *ast.ExprStmt:
		c.eval(x.X)
		return flowNext
	case *ast.AssignStmt:
		c.execAssign(x)
		return flowNext
	case *ast.IncDecStmt:
		lv := c.resolveLV(x.X)
		cur := c.readLV(lv)
		t := c.typeOf(x.X)
		one := c.oneOf(cur.T.Sort)
		op := token.ADD
		if x.Tok == token.DEC {
			op = token.SUB
		}
		nv := c.binop(op, cur, Scalar(one, t), t, t, t)
		c.writeLV(lv, nv)
		return flowNext
	case *ast.DeclStmt:
		gd, ok := x.Decl.(*ast.GenDecl)
		if !ok || gd.Tok != token.VAR {
			if ok && (gd.Tok == token.CONST || gd.Tok == token.TYPE) {
				return flowNext
			}
			c.refuse("unsupported declaration")
		}
		for _, sp := range gd.Specs {
			vs := sp.(*ast.ValueSpec)
			for i, n := range vs.Names {
				o, _ := c.info().Defs[n].(*types.Var)
				if o == nil {
					continue
				}
				var v *Val
				if i < len(vs.Values) {
					v = c.evalConv(vs.Values[i], o.Type())
				} else {
					v = c.zeroVal(o.Type(), c.Fr.Ints, c.Fr.Floats)
				}
				c.declareLocal(o, v)
			}
		}
		return flowNext
	case *ast.IfStmt:
		if x.Init != nil {
			if f := c.execStmt(x.Init); f != flowNext {
				return f
			}
		}
		cond := c.eval(x.Cond)
		if c.branch(cond.T) {
			return c.execBlock(x.Body.List)
		}
		if x.Else != nil {
			return c.execStmt(x.Else)
		}
		return flowNext
	case *ast.ReturnStmt:
		c.execReturn(x)
		return flowReturn
	case *ast.BranchStmt:
		if x.Label != nil {
			c.refuse("labelled branch")
		}
		switch x.Tok {
		case token.BREAK:
			return flowBreak
		case token.CONTINUE:
			return flowContinue
		}
		c.refuse("unsupported branch statement %s", x.Tok)
	case *ast.ForStmt:
		return c.execFor(x)
	case *ast.RangeStmt:
		return c.execRange(x)
	case *ast.SwitchStmt:
		return c.execSwitch(x)
	case *ast.GoStmt, *ast.DeferStmt, *ast.SendStmt, *ast.SelectStmt:
		c.refuse("concurrency statement %T is outside the subset", s)
	}
	c.refuse("unsupported statement %T", s)
	return flowNext
}

func (c *Ctx) oneOf(s Sort) Term {
	switch {
	case s == SInt:
		return IntLit(1)
	case s == SReal:
		return RealLitInt(1)
	case s == SF:
		return App(SF, "xfin", RealLitInt(1))
	case s == SFP:
		return fpLit(1)
	case s.IsBV():
		return BVLit(bigOne, s.BVWidth())
	}
	c.refuse("no unit for sort %s", s)
	return Term{}
}

func (c *Ctx) declareLocal(o *types.Var, v *Val) {
	v = c.shareTerm(v, o.Name())
	if c.needsBox(o) {
		cell := c.alloc("cell$" + o.Name())
		c.Fr.Boxed[o] = cell
		if nt, ok := structCell(o.Type()); ok {
			c.assume(Eq(App(SInt, "dyntype", cell), IntLit(int64(c.E.typeTag(namedKey(nt))))))
		}
		c.Fr.ByName[o.Name()] = append(c.Fr.ByName[o.Name()], o)
		c.storeCell(cell, o.Type(), v)
		return
	}
	c.Fr.declare(o, v)
}

func (c *Ctx) needsBox(o *types.Var) bool {
	for fr := c.Fr; fr != nil; fr = fr.Parent {
		if fr.boxSet != nil && fr.boxSet[o] {
			return true
		}
	}
	return false
}

func (c *Ctx) execAssign(x *ast.AssignStmt) {
	if x.Tok != token.ASSIGN && x.Tok != token.DEFINE {
		// op-assign
		lv := c.resolveLV(x.Lhs[0])
		cur := c.readLV(lv)
		r := c.eval(x.Rhs[0])
		var op token.Token
		switch x.Tok {
		case token.ADD_ASSIGN:
			op = token.ADD
		case token.SUB_ASSIGN:
			op = token.SUB
		case token.MUL_ASSIGN:
			op = token.MUL
		case token.QUO_ASSIGN:
			op = token.QUO
		case token.REM_ASSIGN:
			op = token.REM
		case token.AND_ASSIGN:
			op = token.AND
		case token.OR_ASSIGN:
			op = token.OR
		case token.XOR_ASSIGN:
			op = token.XOR
		case token.SHL_ASSIGN:
			op = token.SHL
		case token.SHR_ASSIGN:
			op = token.SHR
		case token.AND_NOT_ASSIGN:
			op = token.AND_NOT
		default:
			c.refuse("unsupported assignment operator %s", x.Tok)
		}
		lt := c.typeOf(x.Lhs[0])
		nv := c.binop(op, cur, r, lt, c.typeOf(x.Rhs[0]), lt)
		c.writeLV(lv, nv)
		return
	}
	// plain or define
	var vals []*Val
	var vtypes []types.Type
	if len(x.Rhs) == 1 && len(x.Lhs) > 1 {
		var tv *Val
		switch r := x.Rhs[0].(type) {
		case *ast.IndexExpr:
			tv = c.evalIndex(r, true)
		case *ast.TypeAssertExpr:
			v := c.eval(r.X)
			tt := c.typeOf(r.Type)
			ok := c.typeTest(v, tt)
			// failed assertion yields the zero value (nil)
			tv = &Val{K: VTuple, Elems: []*Val{Scalar(Ite(ok, v.T, IntLit(0)), tt), Scalar(ok, types.Typ[types.Bool])}}
		default:
			tv = c.eval(x.Rhs[0])
		}
		if tv.K != VTuple || len(tv.Elems) != len(x.Lhs) {
			c.refuse("tuple assignment arity mismatch")
		}
		vals = tv.Elems
		if tt, ok := c.typeOf(x.Rhs[0]).(*types.Tuple); ok {
			for i := 0; i < tt.Len(); i++ {
				vtypes = append(vtypes, tt.At(i).Type())
			}
		}
	} else {
		// evaluate all RHS (and LHS index operands) before assigning
		for _, r := range x.Rhs {
			vals = append(vals, c.eval(r))
			vtypes = append(vtypes, c.typeOf(r))
		}
	}
	lvs := make([]*LV, len(x.Lhs))
	for i, l := range x.Lhs {
		if x.Tok == token.DEFINE {
			if id, ok := l.(*ast.Ident); ok {
				if id.Name == "_" {
					lvs[i] = &LV{kind: "blank"}
					continue
				}
				if o, ok := c.info().Defs[id].(*types.Var); ok && o != nil {
					lvs[i] = &LV{kind: "newvar", obj: o, typ: o.Type()}
					continue
				}
			}
		}
		lvs[i] = c.resolveLV(l)
	}
	for i, lv := range lvs {
		v := vals[i]
		if lv.typ != nil && i < len(vtypes) && vtypes[i] != nil {
			v = c.assignConv(v, vtypes[i], lv.typ)
		}
		if lv.kind == "newvar" {
			c.declareLocal(lv.obj, v)
			continue
		}
		c.writeLV(lv, v)
	}
}

func (c *Ctx) execReturn(x *ast.ReturnStmt) {
	sig := c.Fr.Sig
	n := sig.Results().Len()
	if len(x.Results) == 0 {
		// named results
		res := make([]*Val, n)
		for i := 0; i < n; i++ {
			if o := c.Fr.ResultVars[i]; o != nil {
				res[i] = c.readVar(o.(*types.Var))
			}
		}
		c.Fr.Results = res
		return
	}
	var vals []*Val
	if len(x.Results) == 1 && n > 1 {
		tv := c.eval(x.Results[0])
		if tv.K != VTuple {
			c.refuse("return arity mismatch")
		}
		vals = tv.Elems
	} else {
		for i, r := range x.Results {
			vals = append(vals, c.evalConv(r, sig.Results().At(i).Type()))
		}
	}
	c.Fr.Results = vals
	for i := 0; i < n && i < len(c.Fr.ResultVars); i++ {
		if o := c.Fr.ResultVars[i]; o != nil {
			c.writeVar(o.(*types.Var), vals[i])
		}
	}
}

func (c *Ctx) execSwitch(x *ast.SwitchStmt) flow {
	if x.Init != nil {
		if f := c.execStmt(x.Init); f != flowNext {
			return f
		}
	}
	var tag *Val
	var tagT types.Type
	if x.Tag != nil {
		tag = c.eval(x.Tag)
		tagT = c.typeOf(x.Tag)
	}
	var def *ast.CaseClause
	for _, cl := range x.Body.List {
		cc := cl.(*ast.CaseClause)
		if cc.List == nil {
			def = cc
			continue
		}
		var conds []Term
		for _, e := range cc.List {
			v := c.eval(e)
			if tag != nil {
				conds = append(conds, c.binop(token.EQL, tag, v, tagT, c.typeOf(e), types.Typ[types.Bool]).T)
			} else {
				conds = append(conds, v.T)
			}
		}
		if c.branch(Or(conds...)) {
			return c.switchBody(cc)
		}
	}
	if def != nil {
		return c.switchBody(def)
	}
	return flowNext
}

func (c *Ctx) switchBody(cc *ast.CaseClause) flow {
	for _, s := range cc.Body {
		if b, ok := s.(*ast.BranchStmt); ok && b.Tok == token.FALLTHROUGH {
			c.refuse("fallthrough is outside the subset")
		}
	}
	f := c.execBlock(cc.Body)
	if f == flowBreak {
		return flowNext
	}
	return f
}

// ---------------------------------------------------------------- loops

// assignedIn collects local variables assigned inside a statement list (for havoc at loop heads).
func (c *Ctx) assignedIn(nodes ...ast.Node) map[*types.Var]bool {
	out := map[*types.Var]bool{}
	add := func(e ast.Expr) {
		for {
			switch y := e.(type) {
			case *ast.ParenExpr:
				e = y.X
				continue
			case *ast.IndexExpr:
				if _, isArr := c.typeOf(y.X).Underlying().(*types.Array); isArr {
					e = y.X
					continue
				}
			case *ast.SelectorExpr:
				if _, isPtr := c.typeOf(y.X).Underlying().(*types.Pointer); !isPtr {
					e = y.X
					continue
				}
			}
			break
		}
		if id, ok := e.(*ast.Ident); ok {
			if o, ok := c.info().ObjectOf(id).(*types.Var); ok {
				out[o] = true
			}
		}
	}
	for _, n := range nodes {
		if n == nil {
			continue
		}
		ast.Inspect(n, func(m ast.Node) bool {
			switch y := m.(type) {
			case *ast.AssignStmt:
				for _, l := range y.Lhs {
					add(l)
				}
			case *ast.IncDecStmt:
				add(y.X)
			case *ast.RangeStmt:
				if y.Key != nil {
					add(y.Key)
				}
				if y.Value != nil {
					add(y.Value)
				}
			case *ast.UnaryExpr:
				if y.Op == token.AND {
					add(y.X) // address taken: may be written through the pointer
				}
			}
			return true
		})
	}
	return out
}

type loopCtl struct {
	spec   *LoopSpec
	ord    int
	label  string
}

func (c *Ctx) loopSpecFor(n ast.Node) (*LoopSpec, int) {
	ord := c.loopOrd[n]
	if c.Fr.Contract == nil {
		return nil, ord
	}
	return c.Fr.Contract.Loops[ord], ord
}

// havocLoop forgets everything the loop may change: assigned locals and the whole heap,
// then re-assumes the function-level frame (objects outside the modifies set keep their entry values).
func (c *Ctx) havocLoop(assigned map[*types.Var]bool, body ...ast.Node) {
	for o := range assigned {
		if _, ok := c.boxedCell(o); ok {
			continue // lives in the heap, havocked below
		}
		if cur, ok := c.Fr.lookupVar(o); ok {
			nv := c.freshVal(o.Name(), o.Type(), c.Fr.Ints, c.Fr.Floats)
			if cur.K == VFunc {
				continue
			}
			c.Fr.setVar(o, nv)
		}
	}
	eff := c.effectsOf(c.Fr.Pkg, body...)
	if eff.all || len(body) == 0 {
		c.havocHeap()
		return
	}
	c.havocHeaps(eff)
}

// havocHeaps forgets only the heap arrays a loop body may write.
func (c *Ctx) havocHeaps(eff *effects) {
	names := make([]string, 0, len(eff.heaps))
	for n := range eff.heaps {
		names = append(names, n)
	}
	sortStrings(names)
	oldTop := c.St.Top
	nt := c.fresh("top", SInt)
	c.assume(Le(oldTop, nt))
	c.St.Top = nt
	for _, n := range names {
		cur := c.heapArr(n, eff.heaps[n])
		h := c.fresh("H$"+n, cur.Sort)
		c.St.Heap[n] = h
		c.assumeFrame(n, h)
	}
}

// havocHeap replaces every materialised heap array by a fresh one related to the entry heap by the frame.
func (c *Ctx) havocHeap() {
	oldTop := c.St.Top
	names := make([]string, 0, len(c.St.Heap))
	for n := range c.St.Heap {
		names = append(names, n)
	}
	sortStrings(names)
	nt := c.fresh("top", SInt)
	c.assume(Le(oldTop, nt))
	c.St.Top = nt
	for _, n := range names {
		cur := c.St.Heap[n]
		if (len(n) > 5 && n[:5] == "glob$") || c.E.immutableHeap(n) {
			continue
		}
		h := c.fresh("H$"+n, cur.Sort)
		c.St.Heap[n] = h
		c.assumeFrame(n, h)
	}
}

// assumeFrame: ids allocated before function entry and outside the function's modifies set are unchanged
// with respect to the entry heap.
func (c *Ctx) assumeFrame(name string, h Term) {
	root := c.rootFrame()
	if root.OldHeap == nil {
		return
	}
	entry := c.heapArrIn(root.OldHeap, name, h.Sort)
	r := Term{S: "fr!r", Sort: SInt}
	inMod := False
	if root.ModSet != nil {
		inMod = root.ModSet(r, name)
	} else {
		return
	}
	body := Implies(And(Lt(r, root.OldTop), Not(inMod)), StructEq(Select(h, r), Select(entry, r)))
	c.assume(Forall([]Term{r}, body, []Term{Select(h, r)}))
}

func (c *Ctx) rootFrame() *Frame {
	fr := c.Fr
	for fr.Parent != nil || fr.Caller != nil {
		if fr.Caller != nil {
			fr = fr.Caller
		} else {
			fr = fr.Parent
		}
	}
	return fr
}

func (c *Ctx) checkInvariants(ls *LoopSpec, ord int, phase string) {
	if ls == nil {
		return
	}
	for i, inv := range ls.Invariants {
		c.useLemmas(inv.Using)
		t := c.evalSpecBool(inv.E)
		label := inv.Label
		if label == "" {
			label = fmt.Sprintf("%d", i+1)
		}
		c.assert(fmt.Sprintf("loop%d-%s", ord, phase), label, t, inv.Src, inv.Serves)
	}
}

func (c *Ctx) assumeInvariants(ls *LoopSpec) {
	if ls == nil {
		return
	}
	for _, inv := range ls.Invariants {
		c.assume(c.evalSpecBool(inv.E))
	}
}

func (c *Ctx) execFor(x *ast.ForStmt) flow {
	if x.Init != nil {
		if f := c.execStmt(x.Init); f != flowNext {
			return f
		}
	}
	ls, ord := c.loopSpecFor(x)
	if ls != nil && ls.Unroll > 0 {
		for it := 0; it <= ls.Unroll; it++ {
			if x.Cond != nil {
				cond := c.eval(x.Cond)
				if !c.branch(cond.T) {
					return flowNext
				}
			}
			if it == ls.Unroll {
				c.curPos = x.Pos()
				c.assert(fmt.Sprintf("loop%d-unwind", ord), "", False, fmt.Sprintf("loop exits within %d iterations", ls.Unroll), nil)
				panic(pathEnd{"unwind"})
			}
			f := c.execBlock(x.Body.List)
			if f == flowBreak {
				return flowNext
			}
			if f == flowReturn {
				return f
			}
			if x.Post != nil {
				c.execStmt(x.Post)
			}
		}
		return flowNext
	}
	if ls == nil || len(ls.Invariants) == 0 {
		c.curPos = x.Pos()
		c.refuse("loop #%d has no invariant", ord)
	}
	c.curPos = x.Pos()
	c.checkInvariants(ls, ord, "init")
	assigned := c.assignedIn(x.Body, x.Post, x.Cond)
	c.havocLoop(assigned, x.Body, x.Post, x.Cond)
	c.assumeInvariants(ls)
	var dec0 Term
	if ls.Decreases != nil {
		dec0 = c.evalSpec(ls.Decreases.E).T
	}
	enter := True
	if x.Cond != nil {
		enter = c.eval(x.Cond).T
	}
	if !c.branch(enter) {
		return flowNext
	}
	f := c.execBlock(x.Body.List)
	switch f {
	case flowBreak:
		return flowNext
	case flowReturn:
		return f
	}
	if x.Post != nil {
		c.execStmt(x.Post)
	}
	c.curPos = x.Pos()
	c.checkInvariants(ls, ord, "keep")
	if ls.Decreases != nil {
		dec1 := c.evalSpec(ls.Decreases.E).T
		c.assert(fmt.Sprintf("loop%d-decreases", ord), "", And(Lt(dec1, dec0), Ge(dec0, IntLit(0))), ls.Decreases.Src, nil)
	}
	panic(pathEnd{"loop body end"})
}

func (c *Ctx) execRange(x *ast.RangeStmt) flow {
	xt := c.typeOf(x.X)
	ls, ord := c.loopSpecFor(x)
	switch u := xt.Underlying().(type) {
	case *types.Slice:
		return c.rangeSlice(x, u, ls, ord)
	case *types.Map:
		return c.rangeMap(x, u, ls, ord)
	}
	c.refuse("range over %s is outside the subset", xt)
	return flowNext
}

func (c *Ctx) rangeVar(e ast.Expr, define bool) *LV {
	if e == nil {
		return nil
	}
	if id, ok := e.(*ast.Ident); ok {
		if id.Name == "_" {
			return nil
		}
		if define {
			if o, ok := c.info().Defs[id].(*types.Var); ok && o != nil {
				return &LV{kind: "newvar", obj: o, typ: o.Type()}
			}
		}
	}
	return c.resolveLV(e)
}

func (c *Ctx) setRangeVar(lv *LV, v *Val) {
	if lv == nil {
		return
	}
	if lv.kind == "newvar" {
		if _, ok := c.Fr.lookupVar(lv.obj); ok {
			c.Fr.setVar(lv.obj, v)
		} else if _, ok := c.boxedCell(lv.obj); ok {
			c.writeVar(lv.obj, v)
		} else {
			c.declareLocal(lv.obj, v)
		}
		return
	}
	c.writeLV(lv, v)
}

func (c *Ctx) rangeSlice(x *ast.RangeStmt, u *types.Slice, ls *LoopSpec, ord int) flow {
	sl := c.eval(x.X) // evaluated once
	define := x.Tok == token.DEFINE
	keyLV := c.rangeVar(x.Key, define)
	valLV := c.rangeVar(x.Value, define)
	intT := types.Typ[types.Int]
	if ls != nil && ls.Unroll > 0 {
		c.refuse("unroll of range loops is not supported")
	}
	if ls == nil || len(ls.Invariants) == 0 {
		c.curPos = x.Pos()
		c.refuse("loop #%d has no invariant", ord)
	}
	// hidden index variable; exposed to specs as $i<ord> and through the key variable when present
	idxName := fmt.Sprintf("$i%d", ord)
	setIdx := func(i Term) {
		c.Fr.Ghost[idxName] = Scalar(i, intT)
		if keyLV != nil {
			c.setRangeVar(keyLV, Scalar(i, intT))
		}
	}
	c.Fr.Ghost[fmt.Sprintf("$len%d", ord)] = Scalar(sl.Len, intT)
	setIdx(IntLit(0))
	// the value variable is assigned at the start of each iteration; before the loop it is undefined:
	if valLV != nil && valLV.kind == "newvar" {
		c.setRangeVar(valLV, c.freshVal(valLV.obj.Name(), valLV.obj.Type(), c.Fr.Ints, c.Fr.Floats))
	}
	c.curPos = x.Pos()
	c.checkInvariants(ls, ord, "init")
	assigned := c.assignedIn(x.Body)
	c.havocLoop(assigned, x.Body)
	i := c.fresh("i", SInt)
	c.assume(And(Le(IntLit(0), i), Le(i, sl.Len)))
	setIdx(i)
	if valLV != nil && valLV.kind == "newvar" {
		c.setRangeVar(valLV, c.freshVal(valLV.obj.Name(), valLV.obj.Type(), c.Fr.Ints, c.Fr.Floats))
	}
	c.assumeInvariants(ls)
	if !c.branch(Lt(i, sl.Len)) {
		return flowNext
	}
	if valLV != nil {
		c.setRangeVar(valLV, c.loadElem(nil, sl.Arr, Add(sl.Off, i), u.Elem()))
	}
	f := c.execBlock(x.Body.List)
	switch f {
	case flowBreak:
		return flowNext
	case flowReturn:
		return f
	}
	setIdx(Add(i, IntLit(1)))
	c.curPos = x.Pos()
	c.checkInvariants(ls, ord, "keep")
	panic(pathEnd{"loop body end"})
}

func (c *Ctx) rangeMap(x *ast.RangeStmt, u *types.Map, ls *LoopSpec, ord int) flow {
	m := c.eval(x.X)
	define := x.Tok == token.DEFINE
	keyLV := c.rangeVar(x.Key, define)
	valLV := c.rangeVar(x.Value, define)
	if ls == nil || len(ls.Invariants) == 0 {
		c.curPos = x.Pos()
		c.refuse("loop #%d has no invariant", ord)
	}
	visName := fmt.Sprintf("$visited%d", ord)
	setSort := ArrSort(SInt, SBool)
	c.Fr.Ghost[visName] = &Val{K: VLogic, T: ConstArray(SInt, SBool, False)}
	c.Fr.Ghost["$visited"] = c.Fr.Ghost[visName]
	if keyLV != nil && keyLV.kind == "newvar" {
		c.setRangeVar(keyLV, c.freshVal(keyLV.obj.Name(), keyLV.obj.Type(), c.Fr.Ints, c.Fr.Floats))
	}
	if valLV != nil && valLV.kind == "newvar" {
		c.setRangeVar(valLV, c.freshVal(valLV.obj.Name(), valLV.obj.Type(), c.Fr.Ints, c.Fr.Floats))
	}
	c.curPos = x.Pos()
	c.checkInvariants(ls, ord, "init")
	assigned := c.assignedIn(x.Body)
	c.havocLoop(assigned, x.Body)
	vis := c.fresh("visited", setSort)
	c.Fr.Ghost[visName] = &Val{K: VLogic, T: vis}
	c.Fr.Ghost["$visited"] = c.Fr.Ghost[visName]
	if keyLV != nil && keyLV.kind == "newvar" {
		c.setRangeVar(keyLV, c.freshVal(keyLV.obj.Name(), keyLV.obj.Type(), c.Fr.Ints, c.Fr.Floats))
	}
	if valLV != nil && valLV.kind == "newvar" {
		c.setRangeVar(valLV, c.freshVal(valLV.obj.Name(), valLV.obj.Type(), c.Fr.Ints, c.Fr.Floats))
	}
	c.assumeInvariants(ls)
	dom, val, _ := c.mapArrays(nil, u)
	d := Select(dom, m.T)
	k := c.fresh("k", SInt)
	// Go: every entry present and not yet produced is eventually produced; the loop ends when none is left
	kq := Term{S: "rm!k", Sort: SInt}
	more := Exists([]Term{kq}, And(Select(d, kq), Not(Select(vis, kq))))
	if !c.branch(more) {
		return flowNext
	}
	c.assume(And(Select(d, k), Not(Select(vis, k))))
	c.assume(Not(Eq(m.T, IntLit(0)))) // a nil map has no entries: inside the body the map is not nil
	c.assume(intRangeOf(u.Key()).InRange(k))
	if keyLV != nil {
		c.setRangeVar(keyLV, Scalar(k, u.Key()))
	}
	if valLV != nil {
		c.setRangeVar(valLV, Scalar(Select(Select(val, m.T), k), u.Elem()))
	}
	f := c.execBlock(x.Body.List)
	switch f {
	case flowBreak:
		return flowNext
	case flowReturn:
		return f
	}
	nv := &Val{K: VLogic, T: Store(vis, k, True)}
	c.Fr.Ghost[visName] = nv
	c.Fr.Ghost["$visited"] = nv
	c.Fr.Ghost["$prev"] = &Val{K: VLogic, T: vis}
	c.Fr.Ghost["$key"] = Scalar(k, u.Key())
	c.curPos = x.Pos()
	c.checkInvariants(ls, ord, "keep")
	panic(pathEnd{"loop body end"})
}
