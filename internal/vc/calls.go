package vc

// Calls: conversions, builtins, library models, inlining and contract application.

import (
	"fmt"
	"go/ast"
	"go/types"
	"strings"
)

func (c *Ctx) evalCall(x *ast.CallExpr) *Val {
	c.curPos = x.Pos()
	// conversion
	if tv, ok := c.info().Types[x.Fun]; ok && tv.IsType() {
		if len(x.Args) != 1 {
			c.refuse("conversion with %d arguments", len(x.Args))
		}
		v := c.eval(x.Args[0])
		return c.convert(v, c.typeOf(x.Args[0]), tv.Type)
	}
	// builtin
	if id, ok := unparen(x.Fun).(*ast.Ident); ok {
		if b, ok := c.info().ObjectOf(id).(*types.Builtin); ok {
			return c.evalBuiltin(b.Name(), x)
		}
	}
	// method call through a selection
	if se, ok := unparen(x.Fun).(*ast.SelectorExpr); ok {
		if sel := c.info().Selections[se]; sel != nil {
			switch sel.Kind() {
			case types.MethodVal:
				fo := sel.Obj().(*types.Func)
				recvExprT := c.typeOf(se.X)
				// library methods on package-level values (binary.LittleEndian)
				if fo.Pkg() != nil && c.E.ByPath[fo.Pkg().Path()] == nil {
					return c.libCall(fo, x, se)
				}
				var base *Val
				if rs := fo.Type().(*types.Signature).Recv(); rs != nil && len(sel.Index()) == 1 {
					_, wantPtr := rs.Type().Underlying().(*types.Pointer)
					_, havePtr := recvExprT.Underlying().(*types.Pointer)
					if _, isStruct := recvExprT.Underlying().(*types.Struct); wantPtr && !havePtr && isStruct {
						// x.M() with pointer receiver on an addressable struct: (&x).M()
						base = c.addressOf(se.X)
						recvExprT = types.NewPointer(recvExprT)
					}
				}
				if base == nil {
					base = c.eval(se.X)
				}
				recv := c.methodReceiver(base, recvExprT, sel)
				args := c.evalArgs(x, fo.Type().(*types.Signature))
				return c.invoke(fo, recv, args, x)
			case types.FieldVal:
				// call of a function-typed field
				c.refuse("call through function-typed field")
			}
		}
		// package-qualified function
		if fo, ok := c.info().ObjectOf(se.Sel).(*types.Func); ok {
			if fo.Pkg() != nil && c.E.ByPath[fo.Pkg().Path()] == nil {
				return c.libCall(fo, x, se)
			}
			args := c.evalArgs(x, fo.Type().(*types.Signature))
			return c.invoke(fo, nil, args, x)
		}
	}
	if id, ok := unparen(x.Fun).(*ast.Ident); ok {
		switch o := c.info().ObjectOf(id).(type) {
		case *types.Func:
			args := c.evalArgs(x, o.Type().(*types.Signature))
			return c.invoke(o, nil, args, x)
		case *types.Var:
			fv := c.readVar(o)
			return c.callFuncValue(fv, o.Name(), x)
		}
	}
	if lit, ok := unparen(x.Fun).(*ast.FuncLit); ok {
		fv := c.eval(lit)
		return c.callFuncValue(fv, "literal", x)
	}
	// call of a call result or other expression producing a function
	fv := c.eval(x.Fun)
	if fv.K == VFunc {
		return c.callFuncValue(fv, "value", x)
	}
	c.refuse("unsupported call %s", types.ExprString(x.Fun))
	return nil
}

func unparen(e ast.Expr) ast.Expr {
	for {
		p, ok := e.(*ast.ParenExpr)
		if !ok {
			return e
		}
		e = p.X
	}
}

func (c *Ctx) evalArgs(x *ast.CallExpr, sig *types.Signature) []*Val {
	var out []*Val
	if sig.Variadic() {
		c.refuse("variadic call is outside the subset")
	}
	if len(x.Args) == 1 && sig.Params().Len() > 1 {
		tv := c.eval(x.Args[0])
		if tv.K == VTuple {
			return tv.Elems
		}
	}
	for i, a := range x.Args {
		out = append(out, c.evalConv(a, sig.Params().At(i).Type()))
	}
	return out
}

// methodReceiver computes the receiver value for a (possibly promoted) method.
func (c *Ctx) methodReceiver(base *Val, baseT types.Type, sel *types.Selection) *Val {
	idx := sel.Index()
	cur, curT := base, baseT
	for _, fi := range idx[:len(idx)-1] {
		// step through embedded field fi
		if p, ok := curT.Underlying().(*types.Pointer); ok {
			st := p.Elem().Underlying().(*types.Struct)
			f := st.Field(fi)
			n, _ := p.Elem().(*types.Named)
			if _, isStruct := f.Type().Underlying().(*types.Struct); isStruct {
				cur = Scalar(cur.T, types.NewPointer(f.Type())) // embedded by value: same object
				curT = types.NewPointer(f.Type())
			} else {
				c.assert("nil", "", Not(Eq(cur.T, IntLit(0))), "nil dereference", nil)
				cur = c.loadField(nil, cur.T, n, f)
				curT = f.Type()
			}
			continue
		}
		if cur.K == VStruct {
			st := curT.Underlying().(*types.Struct)
			f := st.Field(fi)
			cur = cur.F[f.Name()]
			curT = f.Type()
			continue
		}
		c.refuse("unsupported promoted method receiver path")
	}
	fo := sel.Obj().(*types.Func)
	rsig := fo.Type().(*types.Signature)
	if rsig.Recv() == nil {
		return cur
	}
	rt := rsig.Recv().Type()
	_, wantPtr := rt.Underlying().(*types.Pointer)
	_, havePtr := curT.Underlying().(*types.Pointer)
	switch {
	case wantPtr && !havePtr && cur.K == VStruct:
		c.refuse("method with pointer receiver called on struct value (address taken implicitly)")
	case !wantPtr && havePtr && classify(curT) == TRef:
		// value receiver from pointer: load the struct value
		return c.loadStructValue(nil, cur.T, curT.Underlying().(*types.Pointer).Elem())
	}
	return cur
}

// invoke calls a declared function or method.
func (c *Ctx) invoke(fo *types.Func, recv *Val, args []*Val, x *ast.CallExpr) *Val {
	pi := c.E.pkgOf(fo)
	if pi == nil {
		c.refuse("call to %s outside the loaded packages", fo.FullName())
	}
	key := funcKey(fo)
	ct := pi.Spec.Contracts[key]
	// interface method: contract is on the interface
	if ct == nil {
		c.refuse("callee %s.%s has no contract", pi.Name, key)
	}
	ct.Used = true
	if ct.Inline {
		fd := pi.FuncDecls[fo]
		if fd == nil || fd.Body == nil {
			c.refuse("inline callee %s has no body", key)
		}
		return c.inlineCall(pi, fo, fd.Type, fd.Recv, fd.Body, ct, recv, args, nil)
	}
	return c.callContract(pi, fo, ct, recv, args, x)
}

func (c *Ctx) callFuncValue(fv *Val, name string, x *ast.CallExpr) *Val {
	if fv.K != VFunc || fv.Fn == nil {
		c.refuse("call of non-function value")
	}
	sig := fv.Fn.Sig
	if fv.Fn.Decl != nil {
		args := c.evalArgs(x, sig)
		return c.invoke(fv.Fn.Decl, fv.Fn.Recv, args, x)
	}
	if lit, ok := fv.Fn.Lit.(*ast.FuncLit); ok && lit != nil {
		args := c.evalArgs(x, sig)
		return c.inlineCall(fv.Fn.Env.Pkg, nil, lit.Type, nil, lit.Body, nil, nil, args, fv.Fn.Env)
	}
	// unknown function value: callback contract of the enclosing function
	args := c.evalArgs(x, sig)
	return c.callCallback(fv, name, args, x)
}

// inlineCall executes a body in a new frame sharing heap and path.
func (c *Ctx) inlineCall(pi *PkgInfo, fo *types.Func, ft *ast.FuncType, recvFL *ast.FieldList, body *ast.BlockStmt, ct *Contract, recv *Val, args []*Val, env *Frame) *Val {
	if c.depth > 12 {
		c.refuse("inline depth exceeded")
	}
	info := pi.P.TypesInfo
	fr := &Frame{Fn: fo, Pkg: pi, Contract: ct, Vars: map[types.Object]*Val{}, Boxed: map[types.Object]Term{},
		ByName: map[string][]types.Object{}, Ghost: map[string]*Val{}, Ints: pi.Spec.Ints, Floats: pi.Spec.Floats,
		Parent: env, Caller: c.Fr}
	if env != nil {
		fr.Ints, fr.Floats = env.Ints, env.Floats
		fr.Contract = env.Contract
		fr.Ghost = env.Ghost
	}
	if ct != nil {
		if ct.Ints != "" {
			fr.Ints = ct.Ints
		}
		if ct.Floats != "" {
			fr.Floats = ct.Floats
		}
	}
	callerInts, callerFloats := c.Fr.Ints, c.Fr.Floats
	if fo != nil {
		fr.Sig = fo.Type().(*types.Signature)
	} else {
		fr.Sig = info.TypeOf(ft).(*types.Signature)
	}
	fr.boxSet = boxedVars(info, body)
	saved := c.Fr
	c.Fr = fr
	c.depth++
	defer func() { c.Fr = saved; c.depth-- }()
	c.ensureOrdinals(body)
	if recvFL != nil && len(recvFL.List) == 1 && len(recvFL.List[0].Names) == 1 {
		o := info.Defs[recvFL.List[0].Names[0]]
		if o != nil {
			c.declareLocal(o.(*types.Var), recv)
		}
	}
	i := 0
	for _, f := range ft.Params.List {
		for _, n := range f.Names {
			if o, ok := info.Defs[n].(*types.Var); ok && o != nil {
				c.declareLocal(o, c.modeConv(args[i], o.Type(), callerInts, callerFloats, fr.Ints, fr.Floats))
			}
			i++
		}
		if len(f.Names) == 0 {
			i++
		}
	}
	nres := fr.Sig.Results().Len()
	fr.ResultVars = make([]types.Object, nres)
	if ft.Results != nil {
		j := 0
		for _, f := range ft.Results.List {
			for _, n := range f.Names {
				if o, ok := info.Defs[n].(*types.Var); ok && o != nil {
					fr.ResultVars[j] = o
					c.declareLocal(o, c.zeroVal(o.Type(), fr.Ints, fr.Floats))
				}
				j++
			}
			if len(f.Names) == 0 {
				j++
			}
		}
	}
	fl := c.execBlock(body.List)
	if fl != flowReturn {
		// fell off the end
		if nres > 0 {
			res := make([]*Val, nres)
			for k := 0; k < nres; k++ {
				if fr.ResultVars[k] != nil {
					res[k] = c.readVar(fr.ResultVars[k].(*types.Var))
				} else {
					c.refuse("missing return")
				}
			}
			fr.Results = res
		}
	}
	var out []*Val
	for k, r := range fr.Results {
		out = append(out, c.modeConv(r, fr.Sig.Results().At(k).Type(), fr.Ints, fr.Floats, callerInts, callerFloats))
	}
	switch len(out) {
	case 0:
		return &Val{K: VTuple}
	case 1:
		return out[0]
	}
	return &Val{K: VTuple, Elems: out}
}

// modeConv converts scalar representations between verification modes at call boundaries.
func (c *Ctx) modeConv(v *Val, t types.Type, fromI, fromF, toI, toF string) *Val {
	if v == nil || v.K != VScalar {
		return v
	}
	switch classify(t) {
	case TFloat:
		// decided by the actual representation: a value loaded from a field keeps the modes of the package
		// declaring the struct, whatever the modes of the function reading it
		want := floatSortOf(toF)
		if v.T.Sort == want {
			return v
		}
		switch {
		case v.T.Sort == SReal && want == SF:
			return Scalar(App(SF, "xfin", v.T), t)
		case v.T.Sort == SF && want == SReal:
			c.assert("finite", "", App(SBool, "xf.isfin", v.T), "float argument passed to a real-mode function must be finite", nil)
			return Scalar(App(SReal, "xval", v.T), t)
		// bit-precise <-> idealised floats: an uninterpreted change of representation (assumption A-GEN);
		// values keep their identity only through the bridging axioms of the prelude
		case v.T.Sort == SFP && want == SReal:
			return Scalar(App(SReal, "fp2real", v.T), t)
		case v.T.Sort == SFP && want == SF:
			return Scalar(App(SF, "fp2xf", v.T), t)
		case v.T.Sort == SReal && want == SFP:
			return Scalar(App(SFP, "real2fp", v.T), t)
		case v.T.Sort == SF && want == SFP:
			return Scalar(App(SFP, "xf2fp", v.T), t)
		}
		c.refuse("float mode conversion %s -> %s", fromF, toF)
	case TInt:
		want := scalarSort(t, toI, toF)
		if v.T.Sort == want {
			return v
		}
		rg := intRangeOf(t)
		if v.T.Sort.IsBV() && want == SInt {
			if v.T.C != nil {
				return Scalar(rg.Wrap(IntLitBig(v.T.C)), t)
			}
			fn := fmt.Sprintf("bv2i_%s%d", map[bool]string{true: "s", false: "u"}[rg.Signed], rg.Bits)
			c.declareFun(fn, []Sort{v.T.Sort}, SInt)
			r := App(SInt, fn, v.T)
			c.assume(rg.InRange(r))
			return Scalar(r, t)
		}
		if v.T.Sort == SInt && want.IsBV() {
			if v.T.C != nil {
				return Scalar(BVLit(v.T.C, want.BVWidth()), t)
			}
			fn := fmt.Sprintf("i2bv_%s%d", map[bool]string{true: "s", false: "u"}[rg.Signed], rg.Bits)
			c.declareFun(fn, []Sort{SInt}, want)
			return Scalar(App(want, fn, v.T), t)
		}
	}
	return v
}

func boxedVars(info *types.Info, body ast.Node) map[types.Object]bool {
	out := map[types.Object]bool{}
	if body == nil {
		return out
	}
	ast.Inspect(body, func(n ast.Node) bool {
		if u, ok := n.(*ast.UnaryExpr); ok && u.Op.String() == "&" {
			if id, ok := unparen(u.X).(*ast.Ident); ok {
				if o, ok := info.ObjectOf(id).(*types.Var); ok && !o.IsField() {
					out[o] = true
				}
			}
		}
		return true
	})
	return out
}

func (c *Ctx) ensureOrdinals(body ast.Node) {
	if body == nil {
		return
	}
	if _, done := c.loopOrd[body]; done {
		return
	}
	c.loopOrd[body] = 0
	n, fe := 0, 0
	perCallee := map[string]int{}
	if c.callSiteOrd == nil {
		c.callSiteOrd = map[ast.Node]int{}
	}
	ast.Inspect(body, func(m ast.Node) bool {
		switch y := m.(type) {
		case *ast.ForStmt, *ast.RangeStmt:
			n++
			c.loopOrd[m] = n
		case *ast.CallExpr:
			// source-order ordinal among the calls of the same callee
			if fo := calleeFunc(c.Fr.Pkg.P.TypesInfo, y); fo != nil {
				if cpi := c.E.pkgOf(fo); cpi != nil {
					k := cpi.Name + "." + funcKey(fo)
					perCallee[k]++
					c.callSiteOrd[m] = perCallee[k]
				}
			}
			for _, a := range y.Args {
				if _, ok := unparen(a).(*ast.FuncLit); ok {
					fe++
					c.feOrd[m] = fe
					break
				}
			}
		}
		return true
	})
}

// ---------------------------------------------------------------- conversions

func (c *Ctx) convert(v *Val, from, to types.Type) *Val {
	fk, tk := classify(from), classify(to)
	switch {
	case tk == TInt && fk == TInt:
		return Scalar(c.convInt(v.T, from, to), to)
	case tk == TFloat && fk == TInt:
		return Scalar(c.intToFloat(v.T, from), to)
	case tk == TFloat && fk == TFloat:
		return Scalar(v.T, to)
	case tk == TInt && fk == TFloat:
		return Scalar(c.floatToInt(v.T, to), to)
	case tk == fk:
		nv := *v
		nv.Typ = to
		return &nv
	case tk == TRef && fk == TRef:
		return c.assignConv(v, from, to)
	}
	if v.K == VFunc {
		nv := *v
		nv.Typ = to
		return &nv
	}
	c.refuse("unsupported conversion %s -> %s", from, to)
	return nil
}

func (c *Ctx) convInt(x Term, from, to types.Type) Term {
	ts := c.sortFor(to)
	fr, tr := intRangeOf(from), intRangeOf(to)
	if x.Sort == SInt && ts == SInt {
		if fr.Signed == tr.Signed && tr.Bits >= fr.Bits || (!fr.Signed && tr.Signed && tr.Bits > fr.Bits) {
			return x
		}
		return tr.Wrap(x)
	}
	if x.Sort.IsBV() && ts.IsBV() {
		return c.toBVWidth(x, from, ts.BVWidth())
	}
	if x.Sort == SInt && ts.IsBV() {
		if x.C != nil {
			return BVLit(x.C, ts.BVWidth())
		}
		return Term{S: fmt.Sprintf("((_ int2bv %d) %s)", ts.BVWidth(), x.S), Sort: ts}
	}
	if x.Sort.IsBV() && ts == SInt {
		if x.C != nil {
			v := x.C
			return tr.Wrap(IntLitBig(v))
		}
		n := App(SInt, "bv2nat", x)
		if fr.Signed {
			w := x.Sort.BVWidth()
			n = Ite(App(SBool, "bvslt", x, BVLit(bigZero, w)), Sub(n, c.pow2(IntLit(int64(w)))), n)
		}
		return tr.Wrap(n)
	}
	c.refuse("integer conversion between sorts %s and %s", x.Sort, ts)
	return x
}

func (c *Ctx) intToFloat(x Term, from types.Type) Term {
	switch c.Fr.Floats {
	case "real":
		if x.Sort.IsBV() {
			c.refuse("bit-vector to real conversion")
		}
		return ToReal(x)
	case "ext":
		if x.Sort.IsBV() {
			c.refuse("bit-vector to real conversion")
		}
		return App(SF, "xfin", ToReal(x))
	case "ieee":
		if x.Sort.IsBV() {
			if intRangeOf(from).Signed {
				return Term{S: "((_ to_fp 11 53) RNE " + x.S + ")", Sort: SFP}
			}
			return Term{S: "((_ to_fp_unsigned 11 53) RNE " + x.S + ")", Sort: SFP}
		}
		return Term{S: "((_ to_fp 11 53) RNE " + ToReal(x).S + ")", Sort: SFP}
	}
	c.refuse("int to float in mode %s", c.Fr.Floats)
	return x
}

func (c *Ctx) floatToInt(x Term, to types.Type) Term {
	rg := intRangeOf(to)
	switch x.Sort {
	case SReal:
		return rg.Wrap(App(SInt, "trunc", x))
	case SF:
		c.assert("finite", "", App(SBool, "xf.isfin", x), "float to integer conversion of a non-finite value is implementation-defined", nil)
		return rg.Wrap(App(SInt, "trunc", App(SReal, "xval", x)))
	}
	c.refuse("float to int conversion in ieee mode")
	return x
}

// ---------------------------------------------------------------- builtins

type leaf struct {
	name string
	sort Sort // scalar sort of the leaf
	zero Term
}

// leaves enumerates the heap arrays holding elements of type elem (two index levels: array id, position).
func (c *Ctx) leaves(elem types.Type) []leaf {
	ints, floats := c.elemModes(elem)
	base := elemBase(elem) + modeSuffix(elem, ints, floats)
	var out []leaf
	var walk func(b string, t types.Type)
	walk = func(b string, t types.Type) {
		switch classify(t) {
		case TSlice:
			for _, sfx := range []string{"$arr", "$len", "$cap"} {
				out = append(out, leaf{b + sfx, SInt, IntLit(0)})
			}
		case TStruct:
			st := t.Underlying().(*types.Struct)
			for i := 0; i < st.NumFields(); i++ {
				walk(b+"."+st.Field(i).Name(), st.Field(i).Type())
			}
		case TArray, TFunc:
			c.refuse("slice of %s elements is outside the subset", t)
		default:
			s := scalarSort(t, ints, floats)
			out = append(out, leaf{b, s, c.zeroTerm(s)})
		}
	}
	walk(base, elem)
	return out
}

func (c *Ctx) evalBuiltin(name string, x *ast.CallExpr) *Val {
	intT := types.Typ[types.Int]
	switch name {
	case "len", "cap":
		v := c.eval(x.Args[0])
		switch v.K {
		case VSlice:
			if name == "len" {
				return Scalar(v.Len, intT)
			}
			return Scalar(v.Cap, intT)
		case VArray:
			return Scalar(IntLit(v.N), intT)
		case VScalar:
			if m, ok := c.typeOf(x.Args[0]).Underlying().(*types.Map); ok {
				return Scalar(c.mapLen(nil, v.T, m), intT)
			}
		}
		c.refuse("len/cap of unsupported value")
	case "append":
		return c.evalAppend(x)
	case "copy":
		dst := c.eval(x.Args[0])
		src := c.eval(x.Args[1])
		n := c.bulkCopy(dst, src)
		return Scalar(n, intT)
	case "make":
		t := c.typeOf(x.Args[0])
		switch u := t.Underlying().(type) {
		case *types.Slice:
			n := c.eval(x.Args[1]).T
			cp := n
			if len(x.Args) > 2 {
				cp = c.eval(x.Args[2]).T
			}
			c.assert("makelen", "", And(Le(IntLit(0), n), Le(n, cp)), "make: len out of range", nil)
			return c.makeSlice(t, u.Elem(), n, cp)
		case *types.Map:
			id := c.alloc("map")
			dn, _, ln := mapHeapNames(c, u)
			dom, _, lens := c.mapArrays(nil, u)
			c.setHeap(dn, Store(dom, id, ConstArray(SInt, SBool, False)))
			c.setHeap(ln, Store(lens, id, IntLit(0)))
			return Scalar(id, t)
		}
		c.refuse("make(%s) is outside the subset", t)
	case "delete":
		m := c.eval(x.Args[0])
		k := c.eval(x.Args[1])
		u := c.typeOf(x.Args[0]).Underlying().(*types.Map)
		dn, _, ln := mapHeapNames(c, u)
		dom, _, lens := c.mapArrays(nil, u)
		d := Select(dom, m.T)
		was := Select(d, k.T)
		c.setHeap(dn, Store(dom, m.T, Store(d, k.T, False)))
		c.setHeap(ln, Store(lens, m.T, Ite(was, Sub(Select(lens, m.T), IntLit(1)), Select(lens, m.T))))
		return &Val{K: VTuple}
	case "min", "max":
		a := c.eval(x.Args[0])
		for _, e := range x.Args[1:] {
			b := c.eval(e)
			var pick Term
			if name == "min" {
				pick = c.order(tokenLSS, a.T, b.T, c.typeOf(e))
			} else {
				pick = c.order(tokenGTR, a.T, b.T, c.typeOf(e))
			}
			a = Scalar(Ite(pick, a.T, b.T), a.Typ)
		}
		return a
	case "panic":
		c.assert("panic", "", False, "explicit panic reachable", nil)
		panic(pathEnd{"panic"})
	}
	c.refuse("builtin %s is outside the subset", name)
	return nil
}

func (c *Ctx) mapLen(heap map[string]Term, m Term, u *types.Map) Term {
	dom, _, lens := c.mapArrays(heap, u)
	l := Select(lens, m)
	key := "maplen:" + l.S
	if !c.wfSeen[key] {
		c.wfSeen[key] = true
		kq := Term{S: "ml!k", Sort: SInt}
		d := Select(dom, m)
		c.assume(And(Le(IntLit(0), l),
			Implies(Eq(l, IntLit(0)), Forall([]Term{kq}, Not(Select(d, kq)), []Term{Select(d, kq)})),
			Implies(Gt(l, IntLit(0)), Exists([]Term{kq}, Select(d, kq)))))
	}
	return l
}

func (c *Ctx) makeSlice(t types.Type, elem types.Type, n, cp Term) *Val {
	id := c.alloc("mk")
	for _, lf := range c.leaves(elem) {
		h := c.heapArr(lf.name, nestedArr(2, lf.sort))
		c.setHeap(lf.name, Store(h, id, ConstArray(SInt, lf.sort, lf.zero)))
	}
	return &Val{K: VSlice, Typ: t, Arr: id, Off: IntLit(0), Len: n, Cap: cp}
}

// evalAppend models append; see DESIGN 2.2.2 (contents beyond len of a reallocated array are unspecified).
func (c *Ctx) evalAppend(x *ast.CallExpr) *Val {
	s := c.eval(x.Args[0])
	st := c.typeOf(x.Args[0])
	elem := st.Underlying().(*types.Slice).Elem()
	lvs := c.leaves(elem)
	var n Term
	type filler func(lf leaf, old Term, start Term) Term
	var fill filler
	if x.Ellipsis.IsValid() {
		// append(s, t...)
		var src *Val
		zeroFill := false
		if mk, ok := unparen(x.Args[1]).(*ast.CallExpr); ok {
			if id, ok := mk.Fun.(*ast.Ident); ok && id.Name == "make" && len(mk.Args) == 2 {
				if _, isB := c.info().ObjectOf(id).(*types.Builtin); isB {
					zeroFill = true
					n = c.eval(mk.Args[1]).T
					c.assert("makelen", "", Le(IntLit(0), n), "make: len out of range", nil)
				}
			}
		}
		if !zeroFill {
			src = c.eval(x.Args[1])
			n = src.Len
		}
		fill = func(lf leaf, old Term, start Term) Term {
			z := c.fresh("app", ArrSort(SInt, lf.sort))
			j := Term{S: "ap!j", Sort: SInt}
			in := And(Le(start, j), Lt(j, Add(start, n)))
			var srcv Term
			if zeroFill {
				srcv = lf.zero
			} else {
				sh := c.heapArr(lf.name, nestedArr(2, lf.sort))
				srcv = Select(Select(sh, src.Arr), Add(src.Off, Sub(j, start)))
			}
			c.assume(Forall([]Term{j}, StructEq(Select(z, j), Ite(in, srcv, Select(old, j))), []Term{Select(z, j)}))
			return z
		}
	} else {
		var vals []*Val
		for _, a := range x.Args[1:] {
			vals = append(vals, c.evalConv(a, elem))
		}
		n = IntLit(int64(len(vals)))
		fill = func(lf leaf, old Term, start Term) Term {
			cur := old
			for i, v := range vals {
				cur = Store(cur, Add(start, IntLit(int64(i))), c.leafOf(v, elem, lf))
			}
			return cur
		}
	}
	if n.C != nil && n.C.Sign() == 0 {
		return s
	}
	fits := Le(Add(s.Len, n), s.Cap)
	newid := c.alloc("app")
	ncap := c.fresh("cap", SInt)
	c.assume(Ge(ncap, Add(s.Len, n)))
	c.assume(Le(Add(s.Off, ncap), IntLitBig(maxI64)))
	r := &Val{K: VSlice, Typ: st, Arr: Ite(fits, s.Arr, newid), Off: s.Off, Len: Add(s.Len, n), Cap: Ite(fits, s.Cap, ncap)}
	start := Add(s.Off, s.Len)
	for _, lf := range lvs {
		h := c.heapArr(lf.name, nestedArr(2, lf.sort))
		old := Select(h, s.Arr)
		c.setHeap(lf.name, Store(h, r.Arr, fill(lf, old, start)))
	}
	return r
}

// leafOf extracts the scalar stored in heap leaf lf from an element value.
func (c *Ctx) leafOf(v *Val, elem types.Type, lf leaf) Term {
	ints, floats := c.elemModes(elem)
	base := elemBase(elem) + modeSuffix(elem, ints, floats)
	rest := strings.TrimPrefix(lf.name, base)
	cur := v
	for rest != "" {
		if strings.HasPrefix(rest, ".") {
			rest = rest[1:]
			i := strings.IndexAny(rest, ".$")
			name := rest
			if i >= 0 {
				name = rest[:i]
				rest = rest[i:]
			} else {
				rest = ""
			}
			cur = cur.F[name]
			continue
		}
		switch rest {
		case "$arr":
			return cur.Arr
		case "$off":
			return cur.Off
		case "$len":
			return cur.Len
		case "$cap":
			return cur.Cap
		}
		c.refuse("bad leaf %s", lf.name)
	}
	t := cur.T
	if t.Sort != lf.sort {
		t = c.coerce(t, lf.sort)
	}
	return t
}

// bulkCopy models copy(dst, src) with memmove semantics and returns the number of copied elements.
func (c *Ctx) bulkCopy(dst, src *Val) Term {
	elem := dst.Typ.Underlying().(*types.Slice).Elem()
	n := Ite(Le(dst.Len, src.Len), dst.Len, src.Len)
	if dst.Len.C != nil && src.Len.C != nil {
		if dst.Len.C.Cmp(src.Len.C) <= 0 {
			n = dst.Len
		} else {
			n = src.Len
		}
	}
	for _, lf := range c.leaves(elem) {
		h := c.heapArr(lf.name, nestedArr(2, lf.sort))
		oldD := Select(h, dst.Arr)
		oldS := Select(h, src.Arr)
		z := c.fresh("cpy", ArrSort(SInt, lf.sort))
		j := Term{S: "cp!j", Sort: SInt}
		in := And(Le(dst.Off, j), Lt(j, Add(dst.Off, n)))
		c.assume(Forall([]Term{j}, StructEq(Select(z, j), Ite(in, Select(oldS, Add(src.Off, Sub(j, dst.Off))), Select(oldD, j))), []Term{Select(z, j)}))
		c.setHeap(lf.name, Store(h, dst.Arr, z))
	}
	return n
}
