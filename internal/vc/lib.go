package vc

// Trusted models of the few standard-library functions the code under contract uses (assumption A-LIB).

import (
	"go/ast"
	"go/token"
	"go/types"
	"math"
	"math/big"
)

func init() {
	r1 := preludeFun{[]Sort{SReal}, SReal}
	for _, n := range []string{"ln", "exp", "log2", "exp2", "cbrt", "sqrt"} {
		preludeFuns[n] = r1
	}
	preludeFuns["pow"] = preludeFun{[]Sort{SReal, SReal}, SReal}
	preludeFuns["ASum"] = preludeFun{[]Sort{ArrSort(SInt, SReal), SInt, SInt}, SReal}
	preludeFuns["OccI"] = preludeFun{[]Sort{ArrSort(SInt, SInt), SInt, SInt, SInt}, SInt}
	preludeFuns["OccR"] = preludeFun{[]Sort{ArrSort(SInt, SReal), SInt, SInt, SReal}, SInt}
	preludeFuns["pow2"] = preludeFun{[]Sort{SInt}, SInt}
	preludeFuns["Tot"] = preludeFun{[]Sort{ArrSort(SInt, SReal)}, SReal}
	preludeFuns["SetSum"] = preludeFun{[]Sort{ArrSort(SInt, SReal), ArrSort(SInt, SBool)}, SReal}
	preludeFuns["OccX"] = preludeFun{[]Sort{ArrSort(SInt, SF), SInt, SInt, SF}, SInt}
	preludeFuns["XSum"] = preludeFun{[]Sort{ArrSort(SInt, SF), SInt, SInt}, SReal}
}

const preludeMath = `
(declare-fun r_ln (Real) Real)
(declare-fun r_exp (Real) Real)
(declare-fun r_log2 (Real) Real)
(declare-fun r_exp2 (Real) Real)
(declare-fun r_cbrt (Real) Real)
(declare-fun r_sqrt (Real) Real)
(declare-fun r_pow (Real Real) Real)
(declare-fun ASum ((Array Int Real) Int Int) Real)
(declare-fun OccI ((Array Int Int) Int Int Int) Int)
(declare-fun OccR ((Array Int Real) Int Int Real) Int)
(declare-fun f64bits ((_ FloatingPoint 11 53)) (_ BitVec 64))
(declare-fun OccX ((Array Int XF) Int Int XF) Int)
(declare-fun SetSum ((Array Int Real) (Array Int Bool)) Real)
(declare-fun Tot ((Array Int Real)) Real)
(declare-fun fp2real ((_ FloatingPoint 11 53)) Real)
(declare-fun fp2xf ((_ FloatingPoint 11 53)) XF)
(declare-fun real2fp (Real) (_ FloatingPoint 11 53))
(declare-fun xf2fp (XF) (_ FloatingPoint 11 53))
(declare-fun XSum ((Array Int XF) Int Int) Real)
`

func (c *Ctx) libCall(fo *types.Func, x *ast.CallExpr, se *ast.SelectorExpr) *Val {
	full := fo.FullName()
	f64 := types.Typ[types.Float64]
	bt := types.Typ[types.Bool]
	arg := func(i int) *Val { return c.eval(x.Args[i]) }
	fsort := floatSortOf(c.Fr.Floats)
	real1 := func(name string) *Val {
		a := arg(0)
		switch a.T.Sort {
		case SReal:
			return Scalar(App(SReal, "r_"+name, a.T), f64)
		case SF:
			c.assert("finite", name, App(SBool, "xf.isfin", a.T), "argument of math function must be finite in this model", nil)
			return Scalar(App(SF, "xfin", App(SReal, "r_"+name, App(SReal, "xval", a.T))), f64)
		}
		c.refuse("math function %s in ieee mode", name)
		return nil
	}
	switch full {
	case "math.IsNaN":
		a := arg(0)
		switch a.T.Sort {
		case SReal:
			return Scalar(False, bt)
		case SF:
			return Scalar(App(SBool, "xf.isnan", a.T), bt)
		case SFP:
			return Scalar(App(SBool, "fp.isNaN", a.T), bt)
		}
	case "math.IsInf":
		a := arg(0)
		sgn := arg(1)
		if sgn.T.C == nil {
			c.refuse("math.IsInf with symbolic sign")
		}
		s := sgn.T.C.Sign()
		switch a.T.Sort {
		case SReal:
			return Scalar(False, bt)
		case SF:
			pos := Term{S: "((_ is xpinf) " + a.T.S + ")", Sort: SBool}
			neg := Term{S: "((_ is xninf) " + a.T.S + ")", Sort: SBool}
			switch {
			case s > 0:
				return Scalar(pos, bt)
			case s < 0:
				return Scalar(neg, bt)
			}
			return Scalar(Or(pos, neg), bt)
		case SFP:
			inf := App(SBool, "fp.isInfinite", a.T)
			switch {
			case s > 0:
				return Scalar(And(inf, App(SBool, "fp.isPositive", a.T)), bt)
			case s < 0:
				return Scalar(And(inf, App(SBool, "fp.isNegative", a.T)), bt)
			}
			return Scalar(inf, bt)
		}
	case "math.Inf":
		sgn := arg(0)
		if sgn.T.C == nil {
			c.refuse("math.Inf with symbolic sign")
		}
		pos := sgn.T.C.Sign() >= 0
		switch fsort {
		case SF:
			if pos {
				return Scalar(Term{S: "xpinf", Sort: SF}, f64)
			}
			return Scalar(Term{S: "xninf", Sort: SF}, f64)
		case SFP:
			if pos {
				return Scalar(Term{S: "(_ +oo 11 53)", Sort: SFP}, f64)
			}
			return Scalar(Term{S: "(_ -oo 11 53)", Sort: SFP}, f64)
		}
		c.refuse("math.Inf is not representable in real mode")
	case "math.NaN":
		switch fsort {
		case SF:
			return Scalar(Term{S: "xnan", Sort: SF}, f64)
		case SFP:
			return Scalar(Term{S: "(_ NaN 11 53)", Sort: SFP}, f64)
		}
		c.refuse("math.NaN is not representable in real mode")
	case "math.Floor", "math.Ceil":
		a := arg(0)
		fn := "floorR"
		if full == "math.Ceil" {
			fn = "ceilR"
		}
		switch a.T.Sort {
		case SReal:
			return Scalar(App(SReal, fn, a.T), f64)
		case SF:
			return Scalar(Ite(App(SBool, "xf.isfin", a.T), App(SF, "xfin", App(SReal, fn, App(SReal, "xval", a.T))), a.T), f64)
		}
	case "math.Abs":
		a := arg(0)
		switch a.T.Sort {
		case SReal:
			return Scalar(App(SReal, "absR", a.T), f64)
		case SF:
			return Scalar(Ite(App(SBool, "xf.isfin", a.T), App(SF, "xfin", App(SReal, "absR", App(SReal, "xval", a.T))),
				Ite(App(SBool, "xf.isnan", a.T), a.T, Term{S: "xpinf", Sort: SF})), f64)
		case SFP:
			return Scalar(App(SFP, "fp.abs", a.T), f64)
		}
	case "math.Max", "math.Min":
		a, b := arg(0), arg(1)
		isMax := full == "math.Max"
		switch a.T.Sort {
		case SReal:
			if isMax {
				return Scalar(App(SReal, "maxR", a.T, b.T), f64)
			}
			return Scalar(App(SReal, "minR", a.T, b.T), f64)
		case SF:
			// NaN if either is NaN; otherwise the extended-order extreme
			nan := Or(App(SBool, "xf.isnan", a.T), App(SBool, "xf.isnan", b.T))
			var pick Term
			if isMax {
				pick = Ite(App(SBool, "xf.lt", a.T, b.T), b.T, a.T)
			} else {
				pick = Ite(App(SBool, "xf.lt", b.T, a.T), b.T, a.T)
			}
			return Scalar(Ite(nan, Term{S: "xnan", Sort: SF}, pick), f64)
		}
	case "math.Log":
		return real1("ln")
	case "math.Exp":
		return real1("exp")
	case "math.Log2":
		return real1("log2")
	case "math.Exp2":
		return real1("exp2")
	case "math.Cbrt":
		return real1("cbrt")
	case "math.Sqrt":
		return real1("sqrt")
	case "math.Pow":
		a, b := arg(0), arg(1)
		if a.T.Sort == SReal {
			return Scalar(App(SReal, "r_pow", a.T, b.T), f64)
		}
	case "math.Float64bits":
		a := arg(0)
		if a.T.Sort != SFP {
			c.refuse("math.Float64bits outside ieee mode")
		}
		if a.T.F != nil {
			return Scalar(BVLit(new(big.Int).SetUint64(math.Float64bits(*a.T.F)), 64), types.Typ[types.Uint64])
		}
		r := App(SBV64, "f64bits", a.T)
		c.assume(Term{S: "(= ((_ to_fp 11 53) " + r.S + ") " + a.T.S + ")", Sort: SBool})
		return Scalar(r, types.Typ[types.Uint64])
	case "math.Float64frombits":
		a := arg(0)
		if !a.T.Sort.IsBV() {
			c.refuse("math.Float64frombits outside bv mode")
		}
		r := FPFromBits(a.T)
		if r.F == nil {
			// the bit pattern of a non-NaN value is unique
			c.assume(Implies(Not(App(SBool, "fp.isNaN", r)), StructEq(App(SBV64, "f64bits", r), a.T)))
		}
		return Scalar(r, f64)
	case "math/bits.LeadingZeros64", "math/bits.TrailingZeros64":
		a := arg(0)
		if !a.T.Sort.IsBV() {
			c.refuse("%s outside bv mode", full)
		}
		lead := full == "math/bits.LeadingZeros64"
		r := IntLit(64)
		for k := 0; k < 64; k++ {
			// the last ite applied is the outermost, i.e. the one that decides first
			bit := k // leading zeros: the highest set bit decides
			val := int64(63 - k)
			if !lead {
				bit = 63 - k // trailing zeros: the lowest set bit decides
				val = int64(63 - k)
			}
			isSet := StructEq(BVExtract(bit, bit, a.T), BVLit(bigOne, 1))
			r = Ite(isSet, IntLit(val), r)
		}
		return Scalar(r, types.Typ[types.Int])
	case "math/bits.RotateLeft64":
		a, k := arg(0), arg(1)
		if k.T.C == nil {
			c.refuse("RotateLeft64 with symbolic count")
		}
		return Scalar(BVRotl(a.T, int(k.T.C.Int64())), types.Typ[types.Uint64])
	case "(encoding/binary.littleEndian).PutUint64":
		b, v := arg(0), arg(1)
		c.assert("bounds", "PutUint64", Le(IntLit(8), b.Len), "PutUint64 needs 8 bytes", nil)
		elem := types.Typ[types.Uint8]
		for i := 0; i < 8; i++ {
			var by Term
			if v.T.Sort.IsBV() {
				by = BVExtract(8*i+7, 8*i, v.T)
			} else {
				by = IntMod(IntDiv(v.T, c.pow2(IntLit(int64(8*i)))), IntLit(256))
			}
			c.storeElem(b.Arr, Add(b.Off, IntLit(int64(i))), elem, Scalar(by, elem))
		}
		return &Val{K: VTuple}
	case "(encoding/binary.littleEndian).Uint64":
		b := arg(0)
		c.assert("bounds", "Uint64", Le(IntLit(8), b.Len), "Uint64 needs 8 bytes", nil)
		elem := types.Typ[types.Uint8]
		var r Term
		for i := 7; i >= 0; i-- {
			by := c.loadElem(nil, b.Arr, Add(b.Off, IntLit(int64(i))), elem).T
			if by.Sort.IsBV() {
				if i == 7 {
					r = by
				} else {
					r = Term{S: "(concat " + r.S + " " + by.S + ")", Sort: BVSort(r.Sort.BVWidth() + 8)}
				}
			} else {
				if i == 7 {
					r = by
				} else {
					r = Add(Mul(r, IntLit(256)), by)
				}
			}
		}
		return Scalar(r, types.Typ[types.Uint64])
	case "errors.New", "fmt.Errorf":
		for _, a := range x.Args {
			_ = a // arguments are pure formatting operands
		}
		id := c.alloc("err")
		return Scalar(id, types.Universe.Lookup("error").Type())
	case "sort.Ints", "sort.Float64s":
		s := arg(0)
		c.sortSlice(s)
		return &Val{K: VTuple}
	}
	c.refuse("library function %s has no model", full)
	return nil
}

func bigInt(n int64) *big.Int { return big.NewInt(n) }

// sortSlice: trusted contract of sort.Ints / sort.Float64s: afterwards the segment is sorted and a
// permutation of its former content (occurrence counts preserved); everything else is unchanged.
func (c *Ctx) sortSlice(s *Val) {
	elem := s.Typ.Underlying().(*types.Slice).Elem()
	lfs := c.leaves(elem)
	if len(lfs) != 1 {
		c.refuse("sort of non-scalar elements")
	}
	lf := lfs[0]
	h := c.heapArr(lf.name, nestedArr(2, lf.sort))
	old := Select(h, s.Arr)
	z := c.fresh("sorted", ArrSort(SInt, lf.sort))
	lo := s.Off
	hi := Add(s.Off, s.Len)
	i := Term{S: "so!i", Sort: SInt}
	j := Term{S: "so!j", Sort: SInt}
	k := Term{S: "so!k", Sort: lf.sort}
	c.assume(Forall([]Term{i, j}, Implies(And(Le(lo, i), Le(i, j), Lt(j, hi)), c.order(token.LEQ, Select(z, i), Select(z, j), elem)), []Term{Select(z, i), Select(z, j)}))
	c.assume(Forall([]Term{i}, Implies(Or(Lt(i, lo), Ge(i, hi)), StructEq(Select(z, i), Select(old, i))), []Term{Select(z, i)}))
	occ := "OccI"
	switch lf.sort {
	case SReal:
		occ = "OccR"
	case SF:
		occ = "OccX"
	}
	c.assume(Forall([]Term{k}, Eq(App(SInt, occ, z, lo, hi, k), App(SInt, occ, old, lo, hi, k)), []Term{App(SInt, occ, z, lo, hi, k)}))
	// consequences of being a permutation: every new element is an old one and vice versa
	c.assume(Forall([]Term{i}, Implies(And(Le(lo, i), Lt(i, hi)), Exists([]Term{j}, And(Le(lo, j), Lt(j, hi), StructEq(Select(z, i), Select(old, j))))), []Term{Select(z, i)}))
	c.assume(Forall([]Term{j}, Implies(And(Le(lo, j), Lt(j, hi)), Exists([]Term{i}, And(Le(lo, i), Lt(i, hi), StructEq(Select(z, i), Select(old, j))))), []Term{Select(old, j)}))
	c.setHeap(lf.name, Store(h, s.Arr, z))
}
