package vc

// SMT-LIB emission and solver portfolio.

import (
	"bytes"
	"context"
	"fmt"
	"os"
	"os/exec"
	"path/filepath"
	"strings"
	"sync"
	"time"
)

type SolverCfg struct {
	Name string
	Cmd  func(file string, timeoutS int) []string
}

var Solvers = []SolverCfg{
	{"z3-5.1.0", func(f string, t int) []string { return []string{"z3-new", fmt.Sprintf("-T:%d", t), f} }},
	{"z3-4.8.12", func(f string, t int) []string { return []string{"z3", fmt.Sprintf("-T:%d", t), f} }},
	{"cvc5-1.0.3", func(f string, t int) []string {
		return []string{"cvc5", "--produce-models", fmt.Sprintf("--tlimit=%d", t*1000), f}
	}},
}

var funcSyms = []string{"ASum", "OccI", "OccR", "OccX", "XSum", "SetSum", "Tot", "f64bits", "bandI", "r_ln", "r_exp", "r_log2", "r_exp2", "r_cbrt", "r_sqrt", "r_pow", "sf$", "o$"}

func symbolsOf(s string, quantified bool) []string {
	var out []string
	i := 0
	for i < len(s) {
		c := s[i]
		if c == '(' || c == ')' || c == ' ' {
			i++
			continue
		}
		j := i
		for j < len(s) && s[j] != '(' && s[j] != ')' && s[j] != ' ' {
			j++
		}
		tok := s[i:j]
		i = j
		if strings.ContainsAny(tok, "!$") && !strings.HasPrefix(tok, "fr!r") {
			if (strings.HasPrefix(tok, "sf$") || strings.HasPrefix(tok, "o$")) && !quantified {
				continue
			}
			out = append(out, tok)
			continue
		}
		if quantified {
			for _, f := range funcSyms {
				if tok == f {
					out = append(out, tok)
				}
			}
		}
	}
	return out
}

// relevantHyps: cone of influence of the goal over shared symbols (dropping hypotheses is sound).
func (o *Obligation) relevantHyps() []Term {
	type hinfo struct {
		syms []string
		used bool
	}
	infos := make([]hinfo, len(o.Hyps))
	freq := map[string]int{}
	for i, h := range o.Hyps {
		q := strings.Contains(h.S, "(forall ") || strings.Contains(h.S, "(exists ")
		infos[i].syms = symbolsOf(h.S, q)
		seen := map[string]bool{}
		for _, s := range infos[i].syms {
			if !seen[s] {
				seen[s] = true
				freq[s]++
			}
		}
	}
	// hub symbols (receiver, entry heap arrays ...) occur almost everywhere and connect everything: they do
	// not count as a connection (dropping hypotheses is always sound; the full set is tried next)
	if len(o.Hyps) > 60 {
		limit := len(o.Hyps) / 5
		for i := range infos {
			var keep []string
			for _, s := range infos[i].syms {
				if freq[s] <= limit {
					keep = append(keep, s)
				}
			}
			if len(keep) > 0 {
				infos[i].syms = keep
			}
		}
	}
	rel := map[string]bool{}
	for _, s := range symbolsOf(o.Goal.S, true) {
		rel[s] = true
	}
	changed := true
	for changed {
		changed = false
		for i := range infos {
			if infos[i].used {
				continue
			}
			hit := false
			for _, s := range infos[i].syms {
				if rel[s] {
					hit = true
					break
				}
			}
			if len(infos[i].syms) == 0 || len(o.Hyps[i].S) <= 64 {
				hit = true // closed facts and short ground facts (cheap; often about hub symbols such as the receiver)
			}
			if hit {
				infos[i].used = true
				changed = true
				for _, s := range infos[i].syms {
					rel[s] = true
				}
			}
		}
	}
	var out []Term
	for i, h := range o.Hyps {
		if infos[i].used {
			out = append(out, h)
		}
	}
	return out
}

func (o *Obligation) Render(seed int) string { return o.render(false) }

func (o *Obligation) render(sliced bool) string {
	var b strings.Builder
	b.WriteString("; obligation " + o.Name + "\n; " + strings.ReplaceAll(o.Src, "\n", " ") + "\n; at " + o.Pos + "\n")
	b.WriteString("(set-option :produce-models true)\n")
	b.WriteString("(set-logic ALL)\n")
	b.WriteString(preludeInts)
	b.WriteString(preludeXF)
	b.WriteString(preludeMath)
	for _, d := range o.Decls {
		b.WriteString(d + "\n")
	}
	hyps := o.Hyps
	if sliced && !o.Vacuity {
		hyps = o.relevantHyps()
	}
	for _, h := range hyps {
		b.WriteString("(assert " + h.S + ")\n")
	}
	if !o.Vacuity {
		b.WriteString("(assert (not " + o.Goal.S + "))\n")
	}
	b.WriteString("(check-sat)\n")
	return b.String()
}

type solveOutcome struct {
	status string
	solver string
	secs   float64
	output string
}

func runSolver(ctx context.Context, s SolverCfg, file string, timeoutS int) solveOutcome {
	args := s.Cmd(file, timeoutS)
	start := time.Now()
	cctx, cancel := context.WithTimeout(ctx, time.Duration(timeoutS+2)*time.Second)
	defer cancel()
	cmd := exec.CommandContext(cctx, args[0], args[1:]...)
	var out bytes.Buffer
	cmd.Stdout = &out
	cmd.Stderr = &out
	_ = cmd.Run()
	secs := time.Since(start).Seconds()
	txt := out.String()
	first := strings.TrimSpace(strings.SplitN(txt, "\n", 2)[0])
	st := "unknown"
	switch first {
	case "unsat", "sat":
		st = first
	case "timeout":
		st = "timeout"
	default:
		if cctx.Err() != nil {
			st = "timeout"
		} else if strings.Contains(txt, "error") || strings.Contains(txt, "Error") {
			st = "error"
		}
	}
	return solveOutcome{st, s.Name, secs, txt}
}

// Discharge runs the portfolio on one obligation. For validity checks unsat = proved; for vacuity checks sat = ok.
// In the thorough tier (all = true) an accepted answer is cross-checked: the two other solvers are run on the same
// (sliced when it was sliced) query; a definite opposite answer turns the result into "disagree" (reported as a
// violation: either a solver is wrong or the query is at the edge of a theory); their time-outs are tolerated.
func Discharge(o *Obligation, dir string, timeoutS int, seed int, all bool) {
	discharge1(o, dir, timeoutS, seed, all)
	if !all {
		return
	}
	want := "unsat"
	if o.Vacuity {
		want = "sat"
	}
	if o.Status != want {
		return
	}
	file := o.SMT
	if strings.Contains(o.Solver, "(sliced)") {
		file = filepath.Join(dir, sanitizeFile(o.Name)+".sliced.smt2")
	}
	agree := 0
	for _, sv := range Solvers[1:] {
		r := runSolver(context.Background(), sv, file, 5)
		if r.status == want {
			agree++
		} else if r.status == "sat" || r.status == "unsat" {
			o.Status = "disagree"
			o.Model = fmt.Sprintf("%s answered %s, %s answered %s on %s", o.Solver, want, sv.Name, r.status, file)
			return
		}
	}
	o.CrossChecked = agree
}

func discharge1(o *Obligation, dir string, timeoutS int, seed int, all bool) {
	file := filepath.Join(dir, sanitizeFile(o.Name)+".smt2")
	text := o.Render(seed)
	o.SMT = file
	if err := os.WriteFile(file, []byte(text), 0o644); err != nil {
		o.Status = "error"
		return
	}
	want := "unsat"
	if o.Vacuity {
		want = "sat"
	}
	// stage 0: hypotheses restricted to the goal's cone of influence (sound: fewer hypotheses)
	if !o.Vacuity && len(o.Hyps) > 12 {
		sf := filepath.Join(dir, sanitizeFile(o.Name)+".sliced.smt2")
		if err := os.WriteFile(sf, []byte(o.render(true)), 0o644); err == nil {
			st := time.Now()
			r := runSolver(context.Background(), Solvers[0], sf, 3)
			if r.status == "unsat" {
				o.Status, o.Solver, o.Seconds = "unsat", r.solver+" (sliced)", time.Since(st).Seconds()
				return
			}
		}
	}
	// stage 1: the fastest solver alone with a short budget
	quick := 3
	if quick > timeoutS {
		quick = timeoutS
	}
	ctx := context.Background()
	start := time.Now()
	r := runSolver(ctx, Solvers[0], file, quick)
	if r.status == want || (!all && (r.status == "sat" || r.status == "unsat")) {
		o.Status, o.Solver, o.Seconds = r.status, r.solver, time.Since(start).Seconds()
		if r.status == "sat" && !o.Vacuity {
			o.Model = modelOf(file, Solvers[0], timeoutS)
		}
		return
	}
	// stage 2: race all solvers
	cctx, cancel := context.WithCancel(ctx)
	defer cancel()
	ch := make(chan solveOutcome, len(Solvers))
	for _, s := range Solvers {
		go func(s SolverCfg) { ch <- runSolver(cctx, s, file, timeoutS) }(s)
	}
	best := solveOutcome{status: "unknown"}
	var outs []string
	for i := 0; i < len(Solvers); i++ {
		x := <-ch
		outs = append(outs, x.solver+": "+x.status)
		if x.status == want {
			best = x
			break
		}
		if x.status == "sat" || x.status == "unsat" {
			if best.status != "sat" && best.status != "unsat" {
				best = x
			}
			// a definite answer that is not the wanted one: keep waiting briefly for disagreement only in `all` mode
			if !all {
				break
			}
		} else if best.status == "unknown" && x.status == "timeout" {
			best = x
		}
	}
	cancel()
	if best.status != want && best.status != "sat" && best.status != "unsat" && !noRetry {
		// no definite answer (timeout/unknown): one more race with four times the budget, so that a loaded
		// machine does not turn a slow proof into an alarm
		cctx2, cancel2 := context.WithCancel(ctx)
		// the retry portfolio adds differently seeded z3 runs and the sliced query: solver run time on quantified
		// goals varies a lot with the search order
		retry := append([]SolverCfg{}, Solvers...)
		for _, seed := range []int{7, 23} {
			sd := seed
			retry = append(retry, SolverCfg{fmt.Sprintf("z3-5.1.0 seed=%d", sd), func(f string, t int) []string {
				return []string{"z3-new", fmt.Sprintf("-T:%d", t), fmt.Sprintf("smt.random_seed=%d", sd), fmt.Sprintf("sat.random_seed=%d", sd), f}
			}})
		}
		sliced := filepath.Join(dir, sanitizeFile(o.Name)+".sliced.smt2")
		ch2 := make(chan solveOutcome, len(retry)+1)
		n2 := len(retry)
		for _, s := range retry {
			go func(s SolverCfg) { ch2 <- runSolver(cctx2, s, file, 4*timeoutS) }(s)
		}
		if _, err := os.Stat(sliced); err == nil && !o.Vacuity {
			n2++
			go func() {
				r := runSolver(cctx2, Solvers[0], sliced, 4*timeoutS)
				if r.status != "unsat" {
					r.status = "unknown" // a sliced query only proves, it never refutes
				}
				r.solver += " (sliced)"
				ch2 <- r
			}()
		}
		for i := 0; i < n2; i++ {
			x := <-ch2
			outs = append(outs, x.solver+" (retry): "+x.status)
			if x.status == want || x.status == "sat" || x.status == "unsat" {
				best = x
				break
			}
		}
		cancel2()
	}
	o.Status, o.Solver, o.Seconds = best.status, best.solver, time.Since(start).Seconds()
	if o.Status == "sat" && !o.Vacuity {
		for _, s := range Solvers {
			if s.Name == best.solver {
				o.Model = modelOf(file, s, timeoutS)
			}
		}
	}
	if o.Status != want && o.Model == "" {
		o.Model = strings.Join(outs, "; ")
	}
}

func modelOf(file string, s SolverCfg, timeoutS int) string {
	txt, err := os.ReadFile(file)
	if err != nil {
		return ""
	}
	mf := file + ".model.smt2"
	_ = os.WriteFile(mf, append(txt, []byte("(get-model)\n")...), 0o644)
	r := runSolver(context.Background(), s, mf, timeoutS)
	return r.output
}

func sanitizeFile(s string) string {
	var b strings.Builder
	for _, r := range s {
		switch {
		case r >= 'a' && r <= 'z', r >= 'A' && r <= 'Z', r >= '0' && r <= '9', r == '.', r == '-', r == '_':
			b.WriteRune(r)
		default:
			b.WriteRune('_')
		}
	}
	out := b.String()
	if len(out) > 180 {
		out = out[:180]
	}
	return out
}

// DischargeAll runs obligations on a worker pool.
// MaxFailures: once this many obligations have failed, the remaining ones are not attempted (status "skipped");
// the check has already decided "violation" and every further failure would cost a full solver timeout.
var MaxFailures = 6

// noRetry disables the long second attempt (set by tests of the engine itself).
var noRetry = os.Getenv("VERIF_NO_RETRY") != ""

func init() {
	// must-fail runs (seeded changes) only need the first failures
	if v := os.Getenv("VERIF_MAX_FAILURES"); v != "" {
		n := 0
		fmt.Sscanf(v, "%d", &n)
		if n > 0 {
			MaxFailures = n
		}
	}
}

func DischargeAll(obls []*Obligation, dir string, timeoutS, seed, workers int, all bool) {
	var wg sync.WaitGroup
	var mu sync.Mutex
	failures := 0
	ch := make(chan *Obligation)
	for w := 0; w < workers; w++ {
		wg.Add(1)
		go func() {
			defer wg.Done()
			for o := range ch {
				mu.Lock()
				stop := MaxFailures > 0 && failures >= MaxFailures
				mu.Unlock()
				if stop {
					o.Status = "skipped"
					continue
				}
				if len(o.Parts) > 0 {
					// a grouped conjunction: one query for all conjuncts, with a short budget
					g := *o
					g.Parts = nil
					qt := 4
					if qt > timeoutS {
						qt = timeoutS
					}
					Discharge(&g, dir, qt, seed, false)
					if g.Status == "unsat" {
						for _, p := range o.Parts {
							p.Status, p.Solver, p.ViaGroup = "unsat", g.Solver+" (grouped)", true
						}
						o.Parts[0].Seconds = g.Seconds
						o.Status = "unsat"
						continue
					}
					bad := false
					for _, p := range o.Parts {
						mu.Lock()
						stopParts := MaxFailures > 0 && failures >= MaxFailures
						mu.Unlock()
						if stopParts {
							p.Status = "skipped"
							continue
						}
						Discharge(p, dir, timeoutS, seed, all)
						if p.Status != "unsat" {
							bad = true
							mu.Lock()
							failures++
							mu.Unlock()
						}
					}
					if bad {
						o.Status = "parts-failed"
					} else {
						o.Status = "unsat"
					}
					continue
				}
				if o.Kind == "reach" {
					saved := noRetry
					_ = saved
					dischargeQuick(o, dir, 4, seed)
					continue
				}
				Discharge(o, dir, timeoutS, seed, all)
				ok := (!o.Vacuity && o.Status == "unsat") || (o.Vacuity && o.Status == "sat")
				if !ok {
					mu.Lock()
					failures++
					mu.Unlock()
				}
			}
		}()
	}
	for i, o := range obls {
		o.Name = fmt.Sprintf("%s", o.Name)
		_ = i
		ch <- o
	}
	close(ch)
	wg.Wait()
}

// dischargeQuick: one solver, short budget, no retry (cover checks: an inconclusive answer is not an alarm).
func dischargeQuick(o *Obligation, dir string, timeoutS, seed int) {
	file := filepath.Join(dir, sanitizeFile(o.Name)+".smt2")
	_ = os.WriteFile(file, []byte(o.Render(seed)), 0o644)
	o.SMT = file
	start := time.Now()
	r := runSolver(context.Background(), Solvers[0], file, timeoutS)
	o.Status, o.Solver, o.Seconds = r.status, r.solver, time.Since(start).Seconds()
}
