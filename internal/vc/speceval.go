package vc

// Evaluation of specification expressions into symbolic values.

import (
	"fmt"
	"regexp"
	"sort"
	"go/ast"
	"go/token"
	"go/types"
	"math"
	"math/big"
	"strings"
	"strconv"
)

const (
	tokenLSS = token.LSS
	tokenGTR = token.GTR
)

type specEnv struct {
	vars map[string]*Val
	up   *specEnv
}

func (c *Ctx) specHeap() map[string]Term {
	if c.inOld {
		return c.Fr.OldHeap
	}
	return nil
}

func (c *Ctx) evalSpecBool(e SExpr) Term {
	v := c.evalSpec(e)
	if v.K != VScalar || v.T.Sort != SBool {
		c.refuse("specification expression %s is not boolean", e.String())
	}
	return v.T
}

func (c *Ctx) lookupBound(name string) (*Val, bool) {
	for env := c.bound; env != nil; env = env.up {
		if v, ok := env.vars[name]; ok {
			return v, true
		}
	}
	return nil, false
}

func (c *Ctx) importPath(alias string) string {
	for _, f := range c.Fr.Pkg.P.Syntax {
		for _, im := range f.Imports {
			path := strings.Trim(im.Path.Value, `"`)
			name := ""
			if im.Name != nil {
				name = im.Name.Name
			} else if p := c.Fr.Pkg.P.Imports[path]; p != nil {
				name = p.Name
			} else {
				name = path[strings.LastIndex(path, "/")+1:]
			}
			if name == alias {
				return path
			}
		}
	}
	// short names of loaded packages
	if pi := c.E.Pkgs[alias]; pi != nil {
		return pi.P.PkgPath
	}
	return ""
}

func (c *Ctx) evalSpec(e SExpr) *Val {
	switch x := e.(type) {
	case *SNum:
		return c.specNum(x.Text)
	case *SIdent:
		return c.specIdent(x.Name)
	case *SSel:
		return c.specSel(x)
	case *SIndex:
		return c.specIndex(x)
	case *SUn:
		return c.specUnary(x)
	case *SBin:
		return c.specBinary(x)
	case *SCond:
		cnd := c.evalSpecBool(x.C)
		a, b := c.evalSpec(x.A), c.evalSpec(x.B)
		if a.K != VScalar || b.K != VScalar {
			c.refuse("conditional over non-scalar values")
		}
		at, bt := c.specUnify(a.T, b.T)
		return &Val{K: VScalar, T: Ite(cnd, at, bt), Typ: a.Typ}
	case *SQuant:
		return c.specQuant(x)
	case *SCall:
		return c.specCall(x)
	case *SSlice:
		c.refuse("slice expressions in specifications are not supported")
	}
	c.refuse("unsupported specification expression %T", e)
	return nil
}

func (c *Ctx) specNum(text string) *Val {
	if strings.HasPrefix(text, "0x") || strings.HasPrefix(text, "0X") {
		n, ok := new(big.Int).SetString(text[2:], 16)
		if !ok {
			c.refuse("bad hex literal %s", text)
		}
		return Scalar(IntLitBig(n), nil)
	}
	if strings.HasPrefix(text, "0b") {
		n, ok := new(big.Int).SetString(text[2:], 2)
		if !ok {
			c.refuse("bad binary literal %s", text)
		}
		return Scalar(IntLitBig(n), nil)
	}
	if strings.ContainsAny(text, ".eE") {
		r, ok := new(big.Rat).SetString(text)
		if !ok {
			c.refuse("bad real literal %s", text)
		}
		return Scalar(RealLitRat(r), nil)
	}
	n, ok := new(big.Int).SetString(text, 10)
	if !ok {
		c.refuse("bad integer literal %s", text)
	}
	return Scalar(IntLitBig(n), nil)
}

func (c *Ctx) specIdent(name string) *Val {
	if v, ok := c.lookupBound(name); ok {
		return v
	}
	switch name {
	case "true":
		return Scalar(True, types.Typ[types.Bool])
	case "false":
		return Scalar(False, types.Typ[types.Bool])
	case "nil":
		return Scalar(IntLit(0), nil)
	case "result":
		if len(c.Fr.Results) == 0 || c.Fr.Results[0] == nil {
			c.refuse("`result` used but the function has no result here")
		}
		return c.Fr.Results[0]
	case "MaxInt32":
		return Scalar(IntLit(2147483647), nil)
	case "MinInt32":
		return Scalar(IntLit(-2147483648), nil)
	case "MaxInt64":
		return Scalar(IntLitBig(maxI64), nil)
	case "MinInt64":
		return Scalar(IntLitBig(minI64), nil)
	}
	if strings.HasPrefix(name, "result") {
		var i int
		if _, err := fmt.Sscanf(name, "result%d", &i); err == nil && i < len(c.Fr.Results) && c.Fr.Results[i] != nil {
			return c.Fr.Results[i]
		}
	}
	for fr := c.Fr; fr != nil; fr = fr.Parent {
		if v, ok := fr.Ghost[name]; ok {
			return v
		}
		if objs := fr.ByName[name]; len(objs) > 0 {
			var pick types.Object
			if fr.InEnsures {
				// contract clauses speak about the function's parameters and results, never about a local that
				// shadows one of them in an inner block
				for _, o := range objs {
					if _, isEntry := fr.Entry[o]; isEntry {
						pick = o
					}
					for _, ro := range fr.ResultVars {
						if ro == o {
							pick = o
						}
					}
				}
			}
			for i := len(objs) - 1; i >= 0 && pick == nil; i-- {
				o := objs[i]
				if sc := o.Parent(); sc == nil || !c.curPos.IsValid() || sc.Contains(c.curPos) || len(objs) == 1 {
					pick = o
					break
				}
			}
			if pick == nil {
				pick = objs[len(objs)-1]
			}
			// named results
			for i, ro := range fr.ResultVars {
				if ro == pick && i < len(fr.Results) && fr.Results[i] != nil && (fr.InEnsures) {
					return fr.Results[i]
				}
			}
			if (c.inOld || fr.InEnsures) && fr.Entry != nil {
				if ev, ok := fr.Entry[pick]; ok {
					return ev
				}
			}
			if cell, ok := fr.Boxed[pick]; ok {
				saved := c.Fr
				c.Fr = fr
				v := c.loadCell(c.specHeap(), cell, pick.Type())
				c.Fr = saved
				return v
			}
			if v, ok := fr.Vars[pick]; ok {
				return v
			}
		}
	}
	// package level
	if o := c.Fr.Pkg.P.Types.Scope().Lookup(name); o != nil {
		switch oo := o.(type) {
		case *types.Const:
			return c.constVal(oo.Val(), oo.Type())
		case *types.Var:
			return c.readGlobal(oo)
		}
	}
	c.refuse("unresolved name %q in specification", name)
	return nil
}

func (c *Ctx) specSel(x *SSel) *Val {
	if id, ok := x.X.(*SIdent); ok {
		if _, bound := c.lookupBound(id.Name); !bound && c.Fr.ByName[id.Name] == nil && c.Fr.Ghost[id.Name] == nil {
			if path := c.importPath(id.Name); path != "" {
				return c.specPkgMember(path, x.Name)
			}
		}
	}
	base := c.evalSpec(x.X)
	return c.specField(base, x.Name)
}

func (c *Ctx) specPkgMember(path, name string) *Val {
	var pkg *types.Package
	if pi := c.E.ByPath[path]; pi != nil {
		pkg = pi.P.Types
	} else if p := c.Fr.Pkg.P.Imports[path]; p != nil {
		pkg = p.Types
	}
	if pkg == nil {
		c.refuse("package %s not loaded", path)
	}
	o := pkg.Scope().Lookup(name)
	switch oo := o.(type) {
	case *types.Const:
		return c.constVal(oo.Val(), oo.Type())
	case *types.Var:
		return c.readGlobal(oo)
	}
	c.refuse("unsupported package member %s.%s in specification", path, name)
	return nil
}

func (c *Ctx) specField(base *Val, name string) *Val {
	if base.K == VStruct {
		if f, ok := base.F[name]; ok {
			return f
		}
		c.refuse("no field %s in struct value", name)
	}
	if base.K == VSlice {
		switch name {
		case "$arr":
			return Scalar(base.Arr, nil)
		case "$off":
			return Scalar(base.Off, nil)
		}
	}
	if base.Typ == nil {
		c.refuse("field %s of untyped specification value", name)
	}
	obj, index, _ := types.LookupFieldOrMethod(base.Typ, true, c.Fr.Pkg.P.Types, name)
	if obj == nil {
		// unexported field of a type from another package
		if n, _ := structOf(base.Typ); n != nil && n.Obj().Pkg() != nil {
			obj, index, _ = types.LookupFieldOrMethod(base.Typ, true, n.Obj().Pkg(), name)
		}
	}
	if _, ok := obj.(*types.Var); !ok {
		c.refuse("no field %s on %s", name, base.Typ)
	}
	saved := c.noNilChecks
	c.noNilChecks = true
	defer func() { c.noNilChecks = saved }()
	return c.selectFieldSpec(base, index)
}

// selectFieldSpec is selectField without nil-dereference obligations (specifications are total).
func (c *Ctx) selectFieldSpec(base *Val, index []int) *Val {
	heap := c.specHeap()
	ref, owner, f, sv := c.walkToField(heap, base, base.Typ, index)
	if sv != nil {
		return sv.F[f.Name()]
	}
	if _, isStruct := f.Type().Underlying().(*types.Struct); isStruct && f.Embedded() {
		return c.loadStructValue(heap, ref, f.Type())
	}
	v := c.loadField(heap, ref, owner, f)
	return v
}


func (c *Ctx) specIndex(x *SIndex) *Val {
	base := c.evalSpec(x.X)
	i := c.evalSpec(x.I)
	switch base.K {
	case VSlice:
		elem := base.Typ.Underlying().(*types.Slice).Elem()
		return c.loadElem(c.specHeap(), base.Arr, Add(base.Off, i.T), elem)
	case VArray:
		at := base.Typ.Underlying().(*types.Array)
		return Scalar(Select(base.T, i.T), at.Elem())
	case VLogic:
		return Scalar(Select(base.T, i.T), nil)
	case VScalar:
		if base.T.Sort.IsArray() {
			return Scalar(Select(base.T, i.T), nil)
		}
		if base.Typ != nil {
			if m, ok := base.Typ.Underlying().(*types.Map); ok {
				dom, val, _ := c.mapArrays(c.specHeap(), m)
				in := Select(Select(dom, base.T), i.T)
				v := Select(Select(val, base.T), i.T)
				return Scalar(Ite(in, v, c.zeroTerm(v.Sort)), m.Elem())
			}
		}
	}
	c.refuse("indexing of unsupported specification value %s", x.X.String())
	return nil
}

func (c *Ctx) specUnify(a, b Term) (Term, Term) {
	if a.Sort == b.Sort {
		return a, b
	}
	switch {
	case a.Sort == SInt && b.Sort == SReal, a.Sort == SReal && b.Sort == SInt:
		return promote(a, b)
	case a.Sort == SF && (b.Sort == SReal || b.Sort == SInt):
		return a, c.coerce(b, SF)
	case b.Sort == SF && (a.Sort == SReal || a.Sort == SInt):
		return c.coerce(a, SF), b
	case a.Sort.IsBV() && b.Sort == SInt && b.C != nil:
		return a, BVLit(b.C, a.Sort.BVWidth())
	case b.Sort.IsBV() && a.Sort == SInt && a.C != nil:
		return BVLit(a.C, b.Sort.BVWidth()), b
	case a.Sort == SFP && b.Sort == SReal && b.R != nil:
		f, _ := b.R.Float64()
		return a, fpLit(f)
	case b.Sort == SFP && a.Sort == SReal && a.R != nil:
		f, _ := a.R.Float64()
		return fpLit(f), b
	case a.Sort == SFP && b.Sort == SInt && b.C != nil:
		f, _ := new(big.Float).SetInt(b.C).Float64()
		return a, fpLit(f)
	case b.Sort == SFP && a.Sort == SInt && a.C != nil:
		f, _ := new(big.Float).SetInt(a.C).Float64()
		return fpLit(f), b
	}
	return a, b
}

func (c *Ctx) specUnary(x *SUn) *Val {
	v := c.evalSpec(x.X)
	switch x.Op {
	case "!":
		return Scalar(Not(v.T), v.Typ)
	case "-":
		switch {
		case v.T.Sort == SInt || v.T.Sort == SReal:
			return Scalar(Neg(v.T), v.Typ)
		case v.T.Sort == SF:
			return Scalar(App(SF, "xf.neg", v.T), v.Typ)
		case v.T.Sort == SFP:
			return Scalar(App(SFP, "fp.neg", v.T), v.Typ)
		case v.T.Sort.IsBV():
			return Scalar(App(v.T.Sort, "bvneg", v.T), v.Typ)
		}
	case "^":
		if v.T.Sort.IsBV() {
			return Scalar(App(v.T.Sort, "bvnot", v.T), v.Typ)
		}
	case "*":
		// dereference of a cell pointer
		if v.Typ != nil {
			if p, ok := v.Typ.Underlying().(*types.Pointer); ok && classify(v.Typ) == TCell {
				return c.loadCell(c.specHeap(), v.T, p.Elem())
			}
		}
	}
	c.refuse("unsupported unary %s in specification", x.Op)
	return nil
}

func (c *Ctx) specBinary(x *SBin) *Val {
	bt := types.Typ[types.Bool]
	switch x.Op {
	case "&&":
		return Scalar(And(c.evalSpecBool(x.L), c.evalSpecBool(x.R)), bt)
	case "||":
		return Scalar(Or(c.evalSpecBool(x.L), c.evalSpecBool(x.R)), bt)
	case "==>":
		return Scalar(Implies(c.evalSpecBool(x.L), c.evalSpecBool(x.R)), bt)
	case "<==>":
		return Scalar(Iff(c.evalSpecBool(x.L), c.evalSpecBool(x.R)), bt)
	}
	l, r := c.evalSpec(x.L), c.evalSpec(x.R)
	if x.Op == "==" || x.Op == "!=" {
		var eq Term
		switch {
		case l.K == VSlice && r.K == VSlice:
			eq = And(Eq(l.Arr, r.Arr), Eq(l.Off, r.Off), Eq(l.Len, r.Len), Eq(l.Cap, r.Cap))
		case l.K == VStruct && r.K == VStruct:
			eq = c.structEq(l, r)
		case l.K == VSlice || r.K == VSlice:
			sl := l
			if r.K == VSlice {
				sl = r
			}
			eq = Eq(sl.Arr, IntLit(0))
		default:
			a, b := c.specUnify(l.T, r.T)
			if a.Sort != b.Sort {
				c.refuse("comparison of incompatible sorts %s and %s in %s", a.Sort, b.Sort, x.String())
			}
			eq = Eq(a, b)
		}
		if x.Op == "!=" {
			eq = Not(eq)
		}
		return Scalar(eq, bt)
	}
	if l.K != VScalar && l.K != VLogic || r.K != VScalar && r.K != VLogic {
		c.refuse("operator %s on non-scalar specification values", x.Op)
	}
	a, b := c.specUnify(l.T, r.T)
	typ := l.Typ
	if typ == nil {
		typ = r.Typ
	}
	switch x.Op {
	case "<", "<=", ">", ">=":
		op := map[string]token.Token{"<": token.LSS, "<=": token.LEQ, ">": token.GTR, ">=": token.GEQ}[x.Op]
		var t types.Type = types.Typ[types.Uint64]
		if typ != nil && classify(typ) == TInt {
			t = typ
		}
		return Scalar(c.order(op, a, b, t), bt)
	}
	switch {
	case a.Sort == SInt:
		switch x.Op {
		case "+":
			return Scalar(Add(a, b), typ)
		case "-":
			return Scalar(Sub(a, b), typ)
		case "*":
			return Scalar(Mul(a, b), typ)
		case "/":
			return Scalar(IntDiv(a, b), typ)
		case "%":
			return Scalar(IntMod(a, b), typ)
		case "<<":
			return Scalar(Mul(a, c.pow2(b)), typ)
		case ">>":
			return Scalar(IntDiv(a, c.pow2(b)), typ)
		case "&":
			return Scalar(c.bitAnd(a, b), typ)
		}
	case a.Sort == SReal:
		switch x.Op {
		case "+":
			return Scalar(Add(a, b), typ)
		case "-":
			return Scalar(Sub(a, b), typ)
		case "*":
			return Scalar(Mul(a, b), typ)
		case "/":
			return Scalar(RealDiv(a, b), typ)
		}
	case a.Sort == SF:
		f := map[string]string{"+": "xf.add", "-": "xf.sub", "*": "xf.mul", "/": "xf.div"}[x.Op]
		if f != "" {
			return Scalar(App(SF, f, a, b), typ)
		}
	case a.Sort == SFP:
		f := map[string]string{"+": "fp.add", "-": "fp.sub", "*": "fp.mul", "/": "fp.div"}[x.Op]
		if f != "" {
			return Scalar(FPBin(f, a, b), typ)
		}
	case a.Sort.IsBV():
		w := a.Sort.BVWidth()
		if b.Sort == SInt && b.C != nil {
			b = BVLit(b.C, w)
		}
		if b.Sort.IsBV() && b.Sort.BVWidth() != w {
			if b.Sort.BVWidth() < w {
				b = BVZeroExt(w-b.Sort.BVWidth(), b)
			} else {
				b = BVExtract(w-1, 0, b)
			}
		}
		f := map[string]string{"+": "bvadd", "-": "bvsub", "*": "bvmul", "&": "bvand", "|": "bvor", "^": "bvxor", "<<": "bvshl", ">>": "bvlshr", "/": "bvudiv", "%": "bvurem"}[x.Op]
		if f != "" {
			if x.Op == ">>" && typ != nil && classify(typ) == TInt && intRangeOf(typ).Signed {
				return Scalar(App(a.Sort, "bvashr", a, b), typ)
			}
			return Scalar(BVBin(f, a, b), typ)
		}
	}
	c.refuse("unsupported operator %s on sort %s in specification", x.Op, a.Sort)
	return nil
}

// specSort resolves a type name used in binders and spec function signatures.
func (c *Ctx) specSort(name string) (types.Type, Sort) {
	switch name {
	case "int":
		return types.Typ[types.Int], SInt
	case "mathint":
		return nil, SInt
	case "real":
		return nil, SReal
	case "bool":
		return types.Typ[types.Bool], SBool
	case "ref", "id":
		return nil, SInt
	case "float64":
		return types.Typ[types.Float64], floatSortOf(c.Fr.Floats)
	case "xfloat":
		return nil, SF
	case "fp64":
		return nil, SFP
	case "array_real":
		return nil, ArrSort(SInt, SReal)
	case "array_xf":
		return nil, ArrSort(SInt, SF)
	case "array_int":
		return nil, ArrSort(SInt, SInt)
	case "array_byte":
		return nil, ArrSort(SInt, c.sortFor(types.Typ[types.Uint8]))
	case "set":
		return nil, ArrSort(SInt, SBool)
	case "bv64":
		return nil, SBV64
	case "bv8":
		return nil, SBV8
	}
	for _, b := range types.Typ {
		if b.Name() == name {
			return b, c.sortFor(b)
		}
	}
	if name == "byte" {
		return types.Typ[types.Uint8], c.sortFor(types.Typ[types.Uint8])
	}
	// Go type in the current package (possibly qualified / pointer / slice)
	t := c.resolveGoType(name)
	if t == nil {
		c.refuse("unknown type %q in specification", name)
	}
	switch classify(t) {
	case TSlice, TStruct, TArray:
		return t, ""
	}
	return t, c.sortFor(t)
}

func (c *Ctx) resolveGoType(name string) types.Type {
	if strings.HasPrefix(name, "*") {
		if e := c.resolveGoType(name[1:]); e != nil {
			return types.NewPointer(e)
		}
		return nil
	}
	if strings.HasPrefix(name, "[]") {
		if e := c.resolveGoType(name[2:]); e != nil {
			return types.NewSlice(e)
		}
		return nil
	}
	for _, b := range types.Typ {
		if b.Name() == name {
			return b
		}
	}
	if name == "byte" {
		return types.Typ[types.Uint8]
	}
	if i := strings.Index(name, "."); i >= 0 {
		path := c.importPath(name[:i])
		if path == "" {
			return nil
		}
		var pkg *types.Package
		if pi := c.E.ByPath[path]; pi != nil {
			pkg = pi.P.Types
		} else if p := c.Fr.Pkg.P.Imports[path]; p != nil {
			pkg = p.Types
		}
		if pkg == nil {
			return nil
		}
		if o, ok := pkg.Scope().Lookup(name[i+1:]).(*types.TypeName); ok {
			return o.Type()
		}
		return nil
	}
	if o, ok := c.Fr.Pkg.P.Types.Scope().Lookup(name).(*types.TypeName); ok {
		return o.Type()
	}
	if o, ok := types.Universe.Lookup(name).(*types.TypeName); ok {
		return o.Type()
	}
	return nil
}

// bindVar creates a bound logical variable of the named type.
func (c *Ctx) bindVar(b SBinder, tag string) (*Val, []Term) {
	v, ts := c.bindVar0(b, tag)
	if tag == "q" || tag == "m" || tag == "a" {
		if c.boundSorts == nil {
			c.boundSorts = map[string]Sort{}
		}
		for _, t := range ts {
			c.boundNames = append(c.boundNames, t.S)
			c.boundSorts[t.S] = t.Sort
		}
	}
	return v, ts
}

// capturesBound reports whether term s mentions a quantifier-bound variable other than the listed ones.
func (c *Ctx) capturesBound(s string, except []Term) bool {
	for _, n := range c.boundNames {
		skip := false
		for _, e := range except {
			if e.S == n {
				skip = true
			}
		}
		if !skip && containsSym(s, n) {
			return true
		}
	}
	return false
}

var rePh = regexp.MustCompile(`ph!(\d+)!\d+`)
var reQ = regexp.MustCompile(`!q\d+`)

// normPh makes cache keys independent of the unique numbers of placeholder and bound variable names.
func normPh(s string) string {
	return reQ.ReplaceAllString(rePh.ReplaceAllString(s, "ph!$1"), "!q")
}

func hashStr(s string) string {
	h := uint64(1469598103934665603)
	for i := 0; i < len(s); i++ {
		h ^= uint64(s[i])
		h *= 1099511628211
	}
	return fmt.Sprintf("%x", h)
}

// containsSym: s mentions the symbol n as a whole token.
func containsSym(s, n string) bool {
	for i := 0; ; {
		j := strings.Index(s[i:], n)
		if j < 0 {
			return false
		}
		e := i + j + len(n)
		if e >= len(s) || s[e] == ' ' || s[e] == ')' {
			return true
		}
		i = e
	}
}

// define records a definitional axiom (always part of every later obligation, never dropped with the path).
func (c *Ctx) define(t Term) {
	c.defs = append(c.defs, t)
	c.St.Path = append(c.St.Path, t)
}

func (c *Ctx) bindVar0(b SBinder, tag string) (*Val, []Term) {
	c.nbound++
	t, s := c.specSort(b.Type)
	base := fmt.Sprintf("%s!%s%d", sanitize(b.Name), tag, c.nbound)
	if s == "" {
		// aggregate: slices only
		if classify(t) == TSlice {
			v := &Val{K: VSlice, Typ: t, Arr: Term{S: base + "$arr", Sort: SInt}, Off: Term{S: base + "$off", Sort: SInt},
				Len: Term{S: base + "$len", Sort: SInt}, Cap: Term{S: base + "$cap", Sort: SInt}}
			return v, []Term{v.Arr, v.Off, v.Len, v.Cap}
		}
		c.refuse("cannot bind variable of type %s", b.Type)
	}
	tm := Term{S: base, Sort: s}
	if s.IsArray() {
		return &Val{K: VLogic, T: tm, Typ: t}, []Term{tm}
	}
	return Scalar(tm, t), []Term{tm}
}

// specLambda: array comprehension. A fresh array constant A with the defining axiom forall k. A[k] == body(k);
// comprehensions with the same body (same state) share one constant.
func (c *Ctx) specLambda(x *SQuant) *Val {
	if len(x.Vars) != 1 {
		c.refuse("lambda takes exactly one bound variable")
	}
	env := &specEnv{vars: map[string]*Val{}, up: c.bound}
	v, ts := c.bindVar(x.Vars[0], "q")
	env.vars[x.Vars[0].Name] = v
	saved := c.bound
	c.bound = env
	n0 := len(c.St.Path)
	body := c.evalSpec(x.Body)
	c.bound = saved
	c.St.Path = filterPath(c.St.Path, n0, ts)
	if body.K != VScalar {
		c.refuse("lambda body must be scalar")
	}
	// enclosing bound variables the body depends on become extra (outer) dimensions of the array
	var caps []Term
	for _, n := range c.boundNames {
		if n != ts[0].S && containsSym(body.T.S, n) {
			caps = append(caps, Term{S: n, Sort: c.boundSorts[n]})
		}
	}
	key := strings.ReplaceAll(body.T.S, ts[0].S, "!L")
	for i, cp := range caps {
		key = strings.ReplaceAll(key, cp.S, fmt.Sprintf("!C%d", i))
	}
	key = normPh(key)
	if c.lambdaCache == nil {
		c.lambdaCache = map[string]Term{}
	}
	a, ok := c.lambdaCache[key]
	if !ok && c.phDepth > 0 {
		sort := ArrSort(SInt, body.T.Sort)
		for i := len(caps) - 1; i >= 0; i-- {
			sort = ArrSort(caps[i].Sort, sort)
		}
		a = Term{S: "lam?" + fmt.Sprint(len(key)) + "?" + hashStr(key), Sort: sort}
		ok = true
	}
	if !ok {
		sort := ArrSort(SInt, body.T.Sort)
		for i := len(caps) - 1; i >= 0; i-- {
			sort = ArrSort(caps[i].Sort, sort)
		}
		a = c.fresh("lam", sort)
		c.lambdaCache[key] = a
		sel := a
		for _, cp := range caps {
			sel = Select(sel, cp)
		}
		vars := append(append([]Term{}, caps...), ts[0])
		c.define(Forall(vars, StructEq(Select(sel, ts[0]), body.T), []Term{Select(sel, ts[0])}))
	}
	out := a
	for _, cp := range caps {
		out = Select(out, cp)
	}
	return &Val{K: VLogic, T: out}
}

func (c *Ctx) specQuant(x *SQuant) *Val {
	if x.Lambda {
		return c.specLambda(x)
	}
	env := &specEnv{vars: map[string]*Val{}, up: c.bound}
	var vars []Term
	for _, b := range x.Vars {
		v, ts := c.bindVar(b, "q")
		env.vars[b.Name] = v
		vars = append(vars, ts...)
	}
	saved := c.bound
	c.bound = env
	defer func() { c.bound = saved }()
	// hypotheses assumed while evaluating the body must not leak bound variables: suppress assumptions
	savedPath := len(c.St.Path)
	body := c.evalSpecBool(x.Body)
	var pats [][]Term
	for _, p := range x.Pats {
		var pt []Term
		for _, pe := range p {
			pt = append(pt, c.evalSpec(pe).T)
		}
		pats = append(pats, pt)
	}
	// drop any assumption that mentions a bound variable (well-formedness facts of loaded values)
	c.St.Path = filterPath(c.St.Path, savedPath, vars)
	if x.Forall {
		return Scalar(Forall(vars, body, pats...), types.Typ[types.Bool])
	}
	return Scalar(Exists(vars, body, pats...), types.Typ[types.Bool])
}

func filterPath(path []Term, from int, vars []Term) []Term {
	out := path[:from]
	for _, t := range path[from:] {
		bad := false
		for _, v := range vars {
			if containsSym(t.S, v.S) {
				bad = true
				break
			}
		}
		if !bad {
			out = append(out, t)
		}
	}
	return out
}

func (c *Ctx) specCall(x *SCall) *Val {
	name := ""
	pkgAlias := ""
	switch f := x.Fun.(type) {
	case *SIdent:
		name = f.Name
	case *SSel:
		if id, ok := f.X.(*SIdent); ok {
			pkgAlias, name = id.Name, f.Name
		}
	}
	if name == "" {
		c.refuse("unsupported call in specification: %s", x.String())
	}
	// a call of an inline (pure) Go method on a specification value: flag.Type()
	if sel, ok := x.Fun.(*SSel); ok && pkgAlias != "" {
		isVar := false
		if _, b := c.lookupBound(pkgAlias); b {
			isVar = true
		}
		for fr := c.Fr; fr != nil && !isVar; fr = fr.Parent {
			if _, g := fr.Ghost[pkgAlias]; g || len(fr.ByName[pkgAlias]) > 0 {
				isVar = true
			}
		}
		if isVar {
			recv := c.evalSpec(sel.X)
			if recv.Typ != nil {
				obj, _, _ := types.LookupFieldOrMethod(recv.Typ, true, c.Fr.Pkg.P.Types, name)
				if fo, ok := obj.(*types.Func); ok {
					if pi := c.E.pkgOf(fo); pi != nil {
						if ct := pi.Spec.Contracts[funcKey(fo)]; ct != nil && ct.Inline {
							fd := pi.FuncDecls[fo]
							var args []*Val
							for _, a := range x.Args {
								args = append(args, c.evalSpec(a))
							}
							return c.inlineCall(pi, fo, fd.Type, fd.Recv, fd.Body, ct, recv, args, nil)
						}
					}
				}
			}
			c.refuse("method call %s in specification: only inline (pure) methods are supported", x.String())
		}
	}
	bt := types.Typ[types.Bool]
	if pkgAlias == "" {
		switch name {
		case "old":
			if c.Fr.OldHeap == nil {
				c.refuse("old() used where no pre-state exists")
			}
			saved := c.inOld
			c.inOld = true
			defer func() { c.inOld = saved }()
			return c.evalSpec(x.Args[0])
		case "len", "cap":
			v := c.evalSpec(x.Args[0])
			switch v.K {
			case VSlice:
				if name == "len" {
					return Scalar(v.Len, types.Typ[types.Int])
				}
				return Scalar(v.Cap, types.Typ[types.Int])
			case VArray:
				return Scalar(IntLit(v.N), types.Typ[types.Int])
			case VScalar:
				if v.Typ != nil {
					if m, ok := v.Typ.Underlying().(*types.Map); ok {
						return Scalar(c.mapLen(c.specHeap(), v.T, m), types.Typ[types.Int])
					}
				}
			}
			c.refuse("len of unsupported specification value")
		case "contents":
			v := c.evalSpec(x.Args[0])
			if v.K != VSlice {
				c.refuse("contents() of non-slice")
			}
			return &Val{K: VLogic, T: c.contentsOf(c.specHeap(), v)}
		case "off":
			v := c.evalSpec(x.Args[0])
			return Scalar(v.Off, nil)
		case "arr":
			v := c.evalSpec(x.Args[0])
			if v.K != VSlice {
				c.refuse("arr() of non-slice")
			}
			return Scalar(v.Arr, nil)
		case "fresh":
			v := c.evalSpec(x.Args[0])
			id := v.T
			if v.K == VSlice {
				id = v.Arr
			}
			return Scalar(Ge(id, c.Fr.OldTop), bt)
		case "footprintStable", "footprintFresh":
			v := c.evalSpec(x.Args[0])
			post := c.footprintEntries(v, nil, True, name)
			var conj []Term
			if name == "footprintFresh" {
				for _, e := range post {
					conj = append(conj, Forall(e.qvars, Implies(e.guard, Or(Ge(e.id, c.Fr.OldTop), Eq(e.id, IntLit(0))))))
				}
				return Scalar(And(conj...), bt)
			}
			savedOld := c.inOld
			c.inOld = true
			vo := c.evalSpec(x.Args[0])
			pre := c.footprintEntries(vo, nil, True, name)
			c.inOld = savedOld
			for _, e := range post {
				alts := []Term{Ge(e.id, c.Fr.OldTop)}
				for _, p := range pre {
					// only identifiers of the same kind (sharing a heap array) can be carried over
					share := false
					for _, h1 := range p.heaps {
						for _, h2 := range e.heaps {
							if h1.name == h2.name {
								share = true
							}
						}
					}
					if !share {
						continue
					}
					alts = append(alts, Exists(p.qvars, And(p.guard, Eq(p.id, e.id))))
				}
				conj = append(conj, Forall(e.qvars, Implies(e.guard, Or(alts...))))
			}
			return Scalar(And(conj...), bt)
		case "untouched":
			// every location of the (pre-state) footprint of x holds its pre-state value
			savedOld := c.inOld
			c.inOld = true
			vo := c.evalSpec(x.Args[0])
			pre := c.footprintEntries(vo, nil, True, name)
			c.inOld = savedOld
			var conj []Term
			for _, e := range pre {
				for _, h := range e.heaps {
					cur := c.heapArr(h.name, h.sort)
					old := c.heapArrIn(c.Fr.OldHeap, h.name, h.sort)
					if cur.S == old.S {
						continue
					}
					conj = append(conj, Forall(e.qvars, Implies(e.guard, StructEq(Select(cur, e.id), Select(old, e.id)))))
				}
			}
			return Scalar(And(conj...), bt)
		case "sameobject":
			// every field of the object (of its dynamic type) has its pre-state value
			v := c.evalSpec(x.Args[0])
			var conj []Term
			for _, e := range c.footprintEntries(v, nil, True, name) {
				if e.id.S != v.T.S {
					continue // only the object itself, not the arrays it owns
				}
				for _, h := range e.heaps {
					cur := c.heapArr(h.name, h.sort)
					old := c.heapArrIn(c.Fr.OldHeap, h.name, h.sort)
					if cur.S == old.S {
						continue
					}
					conj = append(conj, Implies(e.guard, StructEq(Select(cur, v.T), Select(old, v.T))))
				}
			}
			return Scalar(And(conj...), bt)
		case "disjoint":
			a, b := c.evalSpec(x.Args[0]), c.evalSpec(x.Args[1])
			ea := c.footprintEntries(a, nil, True, name)
			eb := c.footprintEntries(b, nil, True, name)
			var conj []Term
			for _, p := range ea {
				for _, q := range eb {
					// identifiers index heap arrays: two entries can interfere only if they share one
					share := false
					for _, h1 := range p.heaps {
						for _, h2 := range q.heaps {
							if h1.name == h2.name {
								share = true
							}
						}
					}
					if !share {
						continue
					}
					vars := append(append([]Term{}, p.qvars...), q.qvars...)
					conj = append(conj, Forall(vars, Implies(And(p.guard, q.guard), Or(Not(Eq(p.id, q.id)), Eq(p.id, IntLit(0))))))
				}
			}
			return Scalar(And(conj...), bt)
		case "allocated":
			v := c.evalSpec(x.Args[0])
			id := v.T
			if v.K == VSlice {
				id = v.Arr
			}
			return Scalar(And(Lt(IntLit(0), id), Lt(id, c.St.Top)), bt)
		case "dom", "vals":
			m := c.evalSpec(x.Args[0])
			mt, ok := m.Typ.Underlying().(*types.Map)
			if !ok {
				c.refuse("%s() of non-map", name)
			}
			dom, val, _ := c.mapArrays(c.specHeap(), mt)
			if name == "dom" {
				return &Val{K: VLogic, T: Select(dom, m.T)}
			}
			return &Val{K: VLogic, T: Select(val, m.T)}
		case "has":
			m := c.evalSpec(x.Args[0])
			k := c.evalSpec(x.Args[1])
			mt, ok := m.Typ.Underlying().(*types.Map)
			if !ok {
				c.refuse("has() of non-map")
			}
			dom, _, _ := c.mapArrays(c.specHeap(), mt)
			return Scalar(Select(Select(dom, m.T), k.T), bt)
		case "is":
			v := c.evalSpec(x.Args[0])
			tn := x.Args[1].String()
			tn = strings.TrimPrefix(strings.ReplaceAll(tn, " ", ""), "*")
			t := c.resolveGoType(tn)
			if t == nil {
				c.refuse("is(): unknown type %s", tn)
			}
			return Scalar(c.typeTest(v, types.NewPointer(t)), bt)
		case "as":
			v := c.evalSpec(x.Args[0])
			tn := strings.TrimPrefix(strings.ReplaceAll(x.Args[1].String(), " ", ""), "*")
			t := c.resolveGoType(tn)
			if t == nil {
				c.refuse("as(): unknown type %s", tn)
			}
			return Scalar(v.T, types.NewPointer(t))
		case "ite":
			cnd := c.evalSpecBool(x.Args[0])
			a, b := c.evalSpec(x.Args[1]), c.evalSpec(x.Args[2])
			at, btm := c.specUnify(a.T, b.T)
			return Scalar(Ite(cnd, at, btm), a.Typ)
		case "real":
			v := c.evalSpec(x.Args[0])
			switch v.T.Sort {
			case SInt:
				return Scalar(ToReal(v.T), nil)
			case SReal:
				return v
			case SF:
				return Scalar(App(SReal, "xval", v.T), nil)
			case SFP:
				return Scalar(App(SReal, "fp.to_real", v.T), nil)
			}
		case "xf":
			v := c.evalSpec(x.Args[0])
			return Scalar(c.coerce(v.T, SF), v.Typ)
		case "isnan":
			v := c.evalSpec(x.Args[0])
			switch v.T.Sort {
			case SF:
				return Scalar(App(SBool, "xf.isnan", v.T), bt)
			case SFP:
				return Scalar(App(SBool, "fp.isNaN", v.T), bt)
			}
			return Scalar(False, bt)
		case "isinf":
			v := c.evalSpec(x.Args[0])
			switch v.T.Sort {
			case SF:
				return Scalar(App(SBool, "xf.isinf", v.T), bt)
			case SFP:
				return Scalar(App(SBool, "fp.isInfinite", v.T), bt)
			}
			return Scalar(False, bt)
		case "finite":
			v := c.evalSpec(x.Args[0])
			switch v.T.Sort {
			case SF:
				return Scalar(App(SBool, "xf.isfin", v.T), bt)
			case SFP:
				return Scalar(Not(Or(App(SBool, "fp.isNaN", v.T), App(SBool, "fp.isInfinite", v.T))), bt)
			}
			return Scalar(True, bt)
		case "f64bits":
			v := c.evalSpec(x.Args[0])
			if v.T.Sort != SFP {
				c.refuse("f64bits() outside ieee mode")
			}
			if v.T.F != nil {
				return Scalar(BVLit(new(big.Int).SetUint64(math.Float64bits(*v.T.F)), 64), types.Typ[types.Uint64])
			}
			r := App(SBV64, "f64bits", v.T)
			c.assume(Term{S: "(= ((_ to_fp 11 53) " + r.S + ") " + v.T.S + ")", Sort: SBool})
			return Scalar(r, types.Typ[types.Uint64])
		case "frombits":
			v := c.evalSpec(x.Args[0])
			if !v.T.Sort.IsBV() {
				c.refuse("frombits() outside bv mode")
			}
			r := FPFromBits(v.T)
			if r.F == nil {
				c.assume(Implies(Not(App(SBool, "fp.isNaN", r)), StructEq(App(SBV64, "f64bits", r), v.T)))
			}
			return Scalar(r, types.Typ[types.Float64])
		case "rotl", "rotr":
			v := c.evalSpec(x.Args[0])
			k := c.evalSpec(x.Args[1])
			if k.T.C == nil || !v.T.Sort.IsBV() {
				c.refuse("rotl/rotr need a bit-vector and a constant count")
			}
			n := int(k.T.C.Int64()) % 64
			if name == "rotr" {
				n = -n
			}
			return Scalar(BVRotl(v.T, n), v.Typ)
		case "rti":
			v := c.evalSpec(x.Args[0])
			if v.T.Sort != SFP {
				c.refuse("rti() outside ieee mode")
			}
			return Scalar(App(SFP, "fp.roundToIntegral", Term{S: "RNE"}, v.T), v.Typ)
		case "pinf":
			return Scalar(Term{S: "xpinf", Sort: SF}, nil)
		case "ninf":
			return Scalar(Term{S: "xninf", Sort: SF}, nil)
		case "same":
			a, b := c.evalSpec(x.Args[0]), c.evalSpec(x.Args[1])
			at, btm := c.specUnify(a.T, b.T)
			return Scalar(StructEq(at, btm), bt)
		case "fl":
			// fl(literal): the float64 nearest to a decimal literal, as an exact rational (Go rounds constants the same way)
			n, ok := x.Args[0].(*SNum)
			if !ok {
				c.refuse("fl() needs a numeric literal")
			}
			f, err := strconv.ParseFloat(n.Text, 64)
			if err != nil {
				c.refuse("fl(%s): %v", n.Text, err)
			}
			return Scalar(RealLitRat(new(big.Rat).SetFloat64(f)), types.Typ[types.Float64])
		case "floor":
			// same shape as the code's int(math.Floor(x))
			v := c.evalSpec(x.Args[0])
			return Scalar(App(SInt, "trunc", App(SReal, "floorR", ToReal(v.T))), nil)
		case "ceil":
			v := c.evalSpec(x.Args[0])
			return Scalar(App(SInt, "trunc", App(SReal, "ceilR", ToReal(v.T))), nil)
		case "abs":
			v := c.evalSpec(x.Args[0])
			if v.T.Sort == SInt {
				return Scalar(App(SInt, "abs", v.T), v.Typ)
			}
			return Scalar(App(SReal, "absR", v.T), v.Typ)
		case "min", "max":
			a, b := c.evalSpec(x.Args[0]), c.evalSpec(x.Args[1])
			at, btm := c.specUnify(a.T, b.T)
			f := name + "I"
			if at.Sort == SReal {
				f = name + "R"
			}
			return Scalar(App(at.Sort, f, at, btm), a.Typ)
		case "in32":
			v := c.evalSpec(x.Args[0])
			return Scalar(And(Le(IntLit(-2147483648), v.T), Le(v.T, IntLit(2147483647))), bt)
		case "in64":
			v := c.evalSpec(x.Args[0])
			return Scalar(And(Le(IntLitBig(minI64), v.T), Le(v.T, IntLitBig(maxI64))), bt)
		case "dyntype":
			v := c.evalSpec(x.Args[0])
			return Scalar(App(SInt, "dyntype", v.T), nil)
		case "select":
			a, i := c.evalSpec(x.Args[0]), c.evalSpec(x.Args[1])
			return Scalar(Select(a.T, i.T), nil)
		case "update":
			a, i, v := c.evalSpec(x.Args[0]), c.evalSpec(x.Args[1]), c.evalSpec(x.Args[2])
			return &Val{K: VLogic, T: Store(a.T, i.T, v.T)}
		case "emptyset":
			return &Val{K: VLogic, T: ConstArray(SInt, SBool, False)}
		case "uint64", "int64", "int", "byte", "uint8", "int32", "uint", "float64":
			v := c.evalSpec(x.Args[0])
			to := c.resolveGoType(name)
			from := v.Typ
			if from == nil {
				if v.T.Sort == SInt {
					from = types.Typ[types.Int]
				} else if v.T.Sort == SReal {
					from = types.Typ[types.Float64]
				} else {
					c.refuse("conversion %s() of untyped value of sort %s", name, v.T.Sort)
				}
			}
			return c.convert(v, from, to)
		}
	}
	// spec functions
	pi := c.Fr.Pkg
	if pkgAlias != "" {
		if path := c.importPath(pkgAlias); path != "" && c.E.ByPath[path] != nil {
			pi = c.E.ByPath[path]
		} else if p := c.E.Pkgs[pkgAlias]; p != nil {
			pi = p
		} else {
			c.refuse("unknown package %s in specification", pkgAlias)
		}
	}
	if sf := pi.Spec.Funs[name]; sf != nil {
		var args []*Val
		for _, a := range x.Args {
			args = append(args, c.evalSpec(a))
		}
		return c.applySpecFun(pi, sf, args)
	}
	// prelude (uninterpreted, declared globally)
	if pf, ok := preludeFuns[name]; ok {
		var args []Term
		for i, a := range x.Args {
			v := c.evalSpec(a)
			t := v.T
			if i < len(pf.args) && t.Sort != pf.args[i] {
				t = c.coerce(t, pf.args[i])
			}
			args = append(args, t)
		}
		if len(args) != len(pf.args) {
			c.refuse("wrong number of arguments to %s", name)
		}
		smtName := name
		if mathNames[name] {
			smtName = "r_" + name
		}
		r := App(pf.ret, smtName, args...)
		if pf.ret.IsArray() {
			return &Val{K: VLogic, T: r}
		}
		return Scalar(r, nil)
	}
	c.refuse("unknown function %q in specification", name)
	return nil
}

type preludeFun struct {
	args []Sort
	ret  Sort
}

var preludeFuns = map[string]preludeFun{}

var mathNames = map[string]bool{"ln": true, "exp": true, "log2": true, "exp2": true, "cbrt": true, "sqrt": true, "pow": true}

// opaqueApp: a ground first argument x of some opaque function of a package (for automatic framing at calls).
type opaqueApp struct {
	pi *PkgInfo
	x  *Val
}

func (c *Ctx) recordOpaqueApp(pi *PkgInfo, sf *SpecFun, args []*Val) {
	if c.inAutoFrame || c.phDepth > 0 || len(args) == 0 {
		return
	}
	x := args[0]
	if x.K != VScalar || x.T.S == "" || x.Typ == nil {
		return
	}
	if c.capturesBound(x.T.S, nil) || strings.Contains(x.T.S, "ph!") {
		return
	}
	key := pi.Name + "|" + x.T.S
	if c.opaqueSeen == nil {
		c.opaqueSeen = map[string]bool{}
	}
	if c.opaqueSeen[key] {
		return
	}
	c.opaqueSeen[key] = true
	c.opaqueApps = append(c.opaqueApps, opaqueApp{pi, x})
}

// autoFrame: called right after the heap effect of a call has been applied (c.Fr.OldHeap is the pre-call heap).
// For every ground x some opaque function of package P has been applied to, and every opaque function F of P:
// if footprint(x) (in the pre-call state) is disjoint from what the call may modify, F(x, ...) keeps its value.
// Justified by the framing lemma of the declaring package (store.SFrame), which is proved.
func (c *Ctx) autoFrame(entries []ModEntry) {
	if len(c.opaqueApps) == 0 || c.inAutoFrame {
		return
	}
	c.inAutoFrame = true
	defer func() { c.inAutoFrame = false }()
	apps := append([]opaqueApp{}, c.opaqueApps...)
	for _, app := range apps {
		x := app.x
		var cond Term
		func() {
			defer func() {
				if r := recover(); r != nil {
					if _, isRef := r.(refusal); isRef {
						cond = False
						return
					}
					panic(r)
				}
			}()
			savedOld := c.inOld
			c.inOld = true
			fx := c.footprintEntries(x, nil, True, "autoframe")
			c.inOld = savedOld
			var conj []Term
			for _, p := range fx {
				for _, e := range entries {
					if e.all {
						conj = append(conj, False)
						continue
					}
					share := false
					for _, h1 := range p.heaps {
						for _, h2 := range e.heaps {
							if h1.name == h2.name {
								share = true
							}
						}
					}
					if !share {
						continue
					}
					vars := append(append([]Term{}, p.qvars...), e.qvars...)
					conj = append(conj, Forall(vars, Implies(And(p.guard, e.guard), Or(Not(Eq(p.id, e.id)), Eq(p.id, IntLit(0))))))
				}
			}
			cond = And(conj...)
		}()
		if cond.B != nil && !*cond.B {
			continue
		}
		// name the condition once
		if cond.B == nil {
			cn := c.fresh("framed", SBool)
			c.assume(Eq(cn, cond))
			cond = cn
		}
		var names []string
		for n := range app.pi.Spec.Funs {
			names = append(names, n)
		}
		sort.Strings(names)
		for _, n := range names {
			sf := app.pi.Spec.Funs[n]
			if !sf.Opaque || sf.Body == nil || len(sf.Params) == 0 {
				continue
			}
			func() {
				defer func() {
					if r := recover(); r != nil {
						if _, isRef := r.(refusal); isRef {
							return
						}
						panic(r)
					}
				}()
				// the first parameter must accept x
				saved := c.Fr
				c.Fr = &Frame{Pkg: app.pi, Vars: map[types.Object]*Val{}, Boxed: map[types.Object]Term{}, ByName: map[string][]types.Object{},
					Ghost: map[string]*Val{}, Ints: app.pi.Spec.Ints, Floats: app.pi.Spec.Floats, OldHeap: saved.OldHeap, OldTop: saved.OldTop}
				pt, _ := c.specSort(sf.Params[0].Type)
				args := []*Val{x}
				var extra []Term
				okT := pt != nil && x.Typ != nil && types.AssignableTo(x.Typ, pt)
				if okT {
					for _, p := range sf.Params[1:] {
						bv, ts := c.bindVar(p, "q")
						args = append(args, bv)
						extra = append(extra, ts...)
					}
				}
				c.Fr = saved
				if !okT {
					return
				}
				savedOld := c.inOld
				c.inOld = true
				pre := c.applySpecFun(app.pi, sf, args)
				c.inOld = false
				post := c.applySpecFun(app.pi, sf, args)
				c.inOld = savedOld
				if pre.K != VScalar && pre.K != VLogic {
					return
				}
				if pre.T.S == post.T.S {
					return
				}
				eq := StructEq(post.T, pre.T)
				if len(extra) > 0 {
					eq = Forall(extra, eq, []Term{post.T})
				}
				c.assume(Implies(cond, eq))
			}()
		}
	}
}

func (c *Ctx) applySpecFun(pi *PkgInfo, sf *SpecFun, args []*Val) *Val {
	if c.isOpaqueHere(pi, sf) {
		c.recordOpaqueApp(pi, sf, args)
	}
	if len(args) != len(sf.Params) {
		c.refuse("spec function %s: expected %d arguments, got %d", sf.Name, len(sf.Params), len(args))
	}
	fr := &Frame{Pkg: pi, Vars: map[types.Object]*Val{}, Boxed: map[types.Object]Term{}, ByName: map[string][]types.Object{},
		Ghost: map[string]*Val{}, Ints: pi.Spec.Ints, Floats: pi.Spec.Floats, OldHeap: c.Fr.OldHeap, OldTop: c.Fr.OldTop}
	savedFr, savedBound := c.Fr, c.bound
	c.Fr = fr
	defer func() { c.Fr, c.bound = savedFr, savedBound }()
	env := &specEnv{vars: map[string]*Val{}}
	var argTerms []Term
	var argSorts []Sort
	for i, p := range sf.Params {
		t, s := c.specSort(p.Type)
		a := args[i]
		if a.K == VScalar || a.K == VLogic {
			at := a.T
			if s != "" && at.Sort != s {
				at = c.coerce(at, s)
			}
			na := *a
			na.T = at
			if t != nil {
				na.Typ = t
			}
			a = &na
			argTerms = append(argTerms, at)
			argSorts = append(argSorts, at.Sort)
		} else if sf.Body == nil {
			c.refuse("uninterpreted spec function %s takes only scalar/array arguments", sf.Name)
		}
		env.vars[p.Name] = a
	}
	if sf.Body == nil {
		_, rs := c.specSort(sf.Ret)
		fname := "sf$" + pi.Name + "." + sf.Name
		c.declareFun(fname, argSorts, rs)
		r := App(rs, fname, argTerms...)
		if rs.IsArray() {
			return &Val{K: VLogic, T: r}
		}
		return Scalar(r, nil)
	}
	if c.specDepth > 40 {
		c.refuse("spec function expansion too deep (recursion?) at %s", sf.Name)
	}
	c.specDepth++
	defer func() { c.specDepth-- }()
	c.bound = env
	if c.isOpaqueHere(pi, sf) {
		// a name for the function in the current state: an uninterpreted symbol applied to the arguments.
		// The state is identified by the expansion of the body over placeholder arguments. For a view function
		// the symbol yields the logical array over the last parameter.
		penv := &specEnv{vars: map[string]*Val{}}
		var ph []Term
		ok := true
		nfix := len(sf.Params)
		if sf.View {
			nfix--
		}
		for i, p := range sf.Params[:nfix] {
			a := env.vars[p.Name]
			if a.K != VScalar && a.K != VLogic {
				ok = false
				break
			}
			c.nbound++
			t := Term{S: fmt.Sprintf("ph!%d!%d", i, c.nbound), Sort: a.T.Sort}
			na := *a
			na.T = t
			penv.vars[p.Name] = &na
			ph = append(ph, t)
		}
		var lastTs []Term
		if ok && sf.View {
			last := sf.Params[nfix]
			if env.vars[last.Name].K != VScalar {
				ok = false
			} else {
				c.nbound++
				_, srt := c.specSort(last.Type)
				t := Term{S: fmt.Sprintf("ph!%d!%d", nfix, c.nbound), Sort: srt}
				lt, _ := c.specSort(last.Type)
				penv.vars[last.Name] = Scalar(t, lt)
				lastTs = []Term{t}
			}
		}
		if ok {
			c.bound = penv
			n0 := len(c.St.Path)
			nd := len(c.defs)
			c.phDepth++
			b := c.evalSpec(sf.Body)
			c.phDepth--
			allPh := append(append([]Term{}, ph...), lastTs...)
			c.St.Path = filterPath(c.St.Path, n0, allPh)
			var keepDefs []Term
			for j, d := range c.defs {
				bad := false
				if j >= nd {
					for _, t := range allPh {
						if containsSym(d.S, t.S) {
							bad = true
						}
					}
				}
				if !bad {
					keepDefs = append(keepDefs, d)
				}
			}
			c.defs = keepDefs
			c.bound = env
			if b.K == VScalar || b.K == VLogic {
				key := b.T.S
				for i, t := range allPh {
					key = strings.ReplaceAll(key, t.S, fmt.Sprintf("!P%d", i))
				}
				// the allocation frontier is not part of the state an opaque function names: `allocated(y)` for a y
				// reachable from the arguments holds in every reachable state (stored references are always below
				// the frontier), so two states that differ only in the frontier give the same function
				if c.St.Top.S != "" {
					key = replaceSym(key, c.St.Top.S, "!TOP")
				}
				key = "opqf:" + sf.Name + ":" + normPh(key)
				if c.lambdaCache == nil {
					c.lambdaCache = map[string]Term{}
				}
				rs := b.T.Sort
				if sf.Ret != "" {
					if _, s2 := c.specSort(sf.Ret); s2 != "" {
						rs = s2
					}
				}
				if sf.View {
					rs = ArrSort(lastTs[0].Sort, rs)
				}
				f, have := c.lambdaCache[key]
				if !have {
					c.nfresh++
					name := fmt.Sprintf("o$%s!%d", sanitize(sf.Name), c.nfresh)
					var as []Sort
					for _, t := range ph {
						as = append(as, t.Sort)
					}
					c.declareFun(name, as, rs)
					f = Term{S: name, Sort: rs}
					c.lambdaCache[key] = f
				}
				var actual []Term
				for _, p := range sf.Params[:nfix] {
					actual = append(actual, env.vars[p.Name].T)
				}
				r := App(f.Sort, f.S, actual...)
				var rt types.Type
				if sf.Ret != "" {
					rt, _ = c.specSort(sf.Ret)
				}
				if sf.View {
					return Scalar(Select(r, env.vars[sf.Params[nfix].Name].T), rt)
				}
				if f.Sort.IsArray() {
					return &Val{K: VLogic, T: r}
				}
				return Scalar(r, rt)
			}
		}
		c.bound = env
	}
	if sf.View {
		// evaluate the body over a canonical bound variable for the last parameter, name the resulting
		// function of that variable by a logical array, and select the actual argument from it
		last := sf.Params[len(sf.Params)-1]
		actual := env.vars[last.Name]
		if actual.K != VScalar {
			c.refuse("vfun %s: last argument must be scalar", sf.Name)
		}
		bv, ts := c.bindVar(last, "q")
		env.vars[last.Name] = bv
		n0 := len(c.St.Path)
		body := c.evalSpec(sf.Body)
		c.St.Path = filterPath(c.St.Path, n0, ts)
		if body.K != VScalar {
			c.refuse("vfun %s: body must be scalar", sf.Name)
		}
		if c.capturesBound(body.T.S, ts) {
			// depends on an enclosing bound variable: plain expansion
			env.vars[last.Name] = actual
			v := c.evalSpec(sf.Body)
			return v
		}
		key := normPh(strings.ReplaceAll(body.T.S, ts[0].S, "!L"))
		if c.lambdaCache == nil {
			c.lambdaCache = map[string]Term{}
		}
		a, ok := c.lambdaCache[key]
		if ok && c.phDepth > 0 {
			// inside a placeholder expansion the array only serves to compute the state key
		}
		if !ok && c.phDepth > 0 {
			// expansion over placeholder arguments: a canonical name, never defined or declared for the solver
			a = Term{S: "v$" + sf.Name + "?" + fmt.Sprint(len(key)) + "?" + hashStr(key), Sort: ArrSort(ts[0].Sort, body.T.Sort)}
			ok = true
		}
		if !ok {
			a = c.fresh("v$"+sf.Name, ArrSort(ts[0].Sort, body.T.Sort))
			c.lambdaCache[key] = a
			if !c.isOpaqueHere(pi, sf) {
				c.define(Forall(ts, StructEq(Select(a, ts[0]), body.T), []Term{Select(a, ts[0])}))
			}
		}
		return Scalar(Select(a, actual.T), body.Typ)
	}
	v := c.evalSpec(sf.Body)
	if sf.Ret != "" && v.K == VScalar {
		t, s := c.specSort(sf.Ret)
		if s != "" && v.T.Sort != s {
			v = Scalar(c.coerce(v.T, s), t)
		} else if t != nil && v.Typ == nil {
			v = Scalar(v.T, t)
		}
	}
	return v
}

// isOpaqueHere: the spec function is declared opaque and the function under verification lives in another package.
func (c *Ctx) isOpaqueHere(pi *PkgInfo, sf *SpecFun) bool {
	if !sf.Opaque {
		return false
	}
	return c.Pkg != nil && c.Pkg != pi && c.Pkg.Name != "prelude"
}

var _ = ast.NewIdent

// replaceSym replaces whole-token occurrences of sym in s.
func replaceSym(s, sym, by string) string {
	if sym == "" || !strings.Contains(s, sym) {
		return s
	}
	var b strings.Builder
	for i := 0; i < len(s); {
		j := strings.Index(s[i:], sym)
		if j < 0 {
			b.WriteString(s[i:])
			break
		}
		j += i
		end := j + len(sym)
		okL := j == 0 || s[j-1] == ' ' || s[j-1] == '('
		okR := end == len(s) || s[end] == ' ' || s[end] == ')'
		b.WriteString(s[i:j])
		if okL && okR {
			b.WriteString(by)
		} else {
			b.WriteString(sym)
		}
		i = end
	}
	return b.String()
}
