package vc

// Write-effect analysis of statement lists: which heap arrays a loop body (or function literal) may modify.

import (
	"go/ast"
	"go/token"
	"go/types"
)

type effects struct {
	heaps map[string]Sort
	all   bool
}

func (e *effects) add(refs []heapRef) {
	for _, r := range refs {
		e.heaps[r.name] = r.sort
	}
}

func (c *Ctx) effectsOf(pi *PkgInfo, nodes ...ast.Node) *effects {
	eff := &effects{heaps: map[string]Sort{}}
	c.collectEffects(pi, eff, 0, nodes...)
	return eff
}

func (c *Ctx) collectEffects(pi *PkgInfo, eff *effects, depth int, nodes ...ast.Node) {
	if depth > 6 {
		eff.all = true
		return
	}
	info := pi.P.TypesInfo
	typeOf := func(e ast.Expr) types.Type {
		if tv, ok := info.Types[e]; ok {
			return tv.Type
		}
		if id, ok := e.(*ast.Ident); ok {
			if o := info.ObjectOf(id); o != nil {
				return o.Type()
			}
		}
		return nil
	}
	var lhs func(e ast.Expr)
	lhs = func(e ast.Expr) {
		switch y := e.(type) {
		case *ast.ParenExpr:
			lhs(y.X)
		case *ast.Ident:
			if o, ok := info.ObjectOf(y).(*types.Var); ok {
				if _, boxed := c.boxedCell(o); boxed {
					eff.add(c.cellLeafRefs(o.Type()))
				}
			}
		case *ast.SelectorExpr:
			sel := info.Selections[y]
			if sel == nil || sel.Kind() != types.FieldVal {
				eff.all = true
				return
			}
			// find the struct declaring the field along the selection path
			t := typeOf(y.X)
			if t == nil {
				eff.all = true
				return
			}
			isPtr := false
			var owner *types.Named
			var fld *types.Var
			cur := t
			for _, idx := range sel.Index() {
				if p, ok := cur.Underlying().(*types.Pointer); ok {
					cur = p.Elem()
					isPtr = true
				}
				st, ok := cur.Underlying().(*types.Struct)
				if !ok {
					eff.all = true
					return
				}
				owner, _ = cur.(*types.Named)
				fld = st.Field(idx)
				cur = fld.Type()
			}
			if !isPtr {
				lhs(y.X) // field of a struct-valued variable
				return
			}
			if owner == nil || fld == nil {
				eff.all = true
				return
			}
			eff.add(c.fieldLeaves(owner, fld))
		case *ast.IndexExpr:
			t := typeOf(y.X)
			if t == nil {
				eff.all = true
				return
			}
			switch u := t.Underlying().(type) {
			case *types.Slice:
				eff.add(c.elemLeafRefs(u.Elem()))
			case *types.Map:
				eff.add(c.mapLeafRefs(u))
			case *types.Array:
				lhs(y.X)
			default:
				eff.all = true
			}
		case *ast.StarExpr:
			t := typeOf(y.X)
			p, ok := t.Underlying().(*types.Pointer)
			if !ok {
				eff.all = true
				return
			}
			if classify(t) == TCell {
				eff.add(c.cellLeafRefs(p.Elem()))
				eff.add(c.elemLeafRefs(p.Elem()))
			} else {
				eff.add(c.structLeaves(t))
			}
		default:
			eff.all = true
		}
	}
	for _, n := range nodes {
		if n == nil {
			continue
		}
		ast.Inspect(n, func(m ast.Node) bool {
			if eff.all {
				return false
			}
			switch y := m.(type) {
			case *ast.AssignStmt:
				for _, l := range y.Lhs {
					if id, ok := l.(*ast.Ident); ok && (id.Name == "_" || y.Tok == token.DEFINE) {
						if y.Tok == token.DEFINE {
							if o, ok := info.Defs[id].(*types.Var); ok && o != nil {
								continue
							}
						} else {
							continue
						}
					}
					lhs(l)
				}
			case *ast.IncDecStmt:
				lhs(y.X)
			case *ast.RangeStmt:
				if y.Tok == token.ASSIGN {
					if y.Key != nil {
						lhs(y.Key)
					}
					if y.Value != nil {
						lhs(y.Value)
					}
				}
			case *ast.GoStmt, *ast.DeferStmt, *ast.SendStmt:
				eff.all = true
			case *ast.CallExpr:
				c.callEffects(pi, eff, depth, y)
			}
			return true
		})
	}
}

func (c *Ctx) callEffects(pi *PkgInfo, eff *effects, depth int, call *ast.CallExpr) {
	info := pi.P.TypesInfo
	if tv, ok := info.Types[call.Fun]; ok && tv.IsType() {
		return
	}
	argType := func(i int) types.Type {
		if i < len(call.Args) {
			if tv, ok := info.Types[call.Args[i]]; ok {
				return tv.Type
			}
		}
		return nil
	}
	if id, ok := unparen(call.Fun).(*ast.Ident); ok {
		if b, ok := info.ObjectOf(id).(*types.Builtin); ok {
			switch b.Name() {
			case "append", "copy":
				if t := argType(0); t != nil {
					if sl, ok := t.Underlying().(*types.Slice); ok {
						eff.add(c.elemLeafRefs(sl.Elem()))
						return
					}
				}
				eff.all = true
			case "delete":
				if t := argType(0); t != nil {
					if m, ok := t.Underlying().(*types.Map); ok {
						eff.add(c.mapLeafRefs(m))
						return
					}
				}
				eff.all = true
			}
			return
		}
	}
	fo := calleeFunc(info, call)
	if fo == nil {
		// call through a function value
		eff.all = true
		return
	}
	if fo.Pkg() != nil && c.E.ByPath[fo.Pkg().Path()] == nil {
		switch fo.FullName() {
		case "sort.Ints", "sort.Float64s":
			if t := argType(0); t != nil {
				if sl, ok := t.Underlying().(*types.Slice); ok {
					eff.add(c.elemLeafRefs(sl.Elem()))
					return
				}
			}
			eff.all = true
		case "(encoding/binary.littleEndian).PutUint64":
			eff.add(c.elemLeafRefs(types.Typ[types.Uint8]))
		}
		return // other library models have no heap effect
	}
	cpi := c.E.pkgOf(fo)
	ct := c.E.contractOf(fo)
	if cpi == nil || ct == nil {
		eff.all = true
		return
	}
	if ct.Inline {
		if fd := cpi.FuncDecls[fo]; fd != nil && fd.Body != nil {
			c.collectEffects(cpi, eff, depth+1, fd.Body)
			return
		}
		eff.all = true
		return
	}
	if len(ct.Callbacks) > 0 {
		eff.all = true
		return
	}
	ce := c.contractEffects(cpi, fo, ct)
	if ce.all {
		eff.all = true
		return
	}
	for n, s := range ce.heaps {
		eff.heaps[n] = s
	}
}

// contractEffects: the heap arrays named by a contract's modifies clause (evaluated on dummy arguments).
func (c *Ctx) contractEffects(pi *PkgInfo, fo *types.Func, ct *Contract) *effects {
	key := pi.Name + "." + ct.Name + "|" + c.Fr.Ints + c.Fr.Floats
	if c.effCache == nil {
		c.effCache = map[string]*effects{}
	}
	if e, ok := c.effCache[key]; ok {
		return e
	}
	eff := &effects{heaps: map[string]Sort{}}
	c.effCache[key] = eff
	if len(ct.Modifies) == 0 {
		return eff
	}
	savedFr, savedBound, n0 := c.Fr, c.bound, len(c.St.Path)
	savedHeap := c.St.cloneHeap()
	delete(savedHeap, "$epoch")
	func() {
		defer func() {
			if r := recover(); r != nil {
				if _, ok := r.(refusal); ok {
					eff.all = true
					return
				}
				panic(r)
			}
		}()
		sig := fo.Type().(*types.Signature)
		ci, cfl := pi.Spec.Ints, pi.Spec.Floats
		if ct.Ints != "" {
			ci = ct.Ints
		}
		if ct.Floats != "" {
			cfl = ct.Floats
		}
		var recv *Val
		if sig.Recv() != nil {
			recv = c.freshVal("eff$recv", sig.Recv().Type(), ci, cfl)
		}
		var args []*Val
		for i := 0; i < sig.Params().Len(); i++ {
			args = append(args, c.freshVal("eff$arg", sig.Params().At(i).Type(), ci, cfl))
		}
		cf := c.calleeFrame(pi, fo, ct, recv, args)
		cf.OldHeap = c.St.cloneHeap()
		cf.OldTop = c.St.Top
		c.Fr = cf
		c.bound = nil
		for _, e := range c.evalModEntries(ct.Modifies) {
			if e.all {
				eff.all = true
			}
			eff.add(e.heaps)
		}
	}()
	c.Fr, c.bound = savedFr, savedBound
	c.St.Path = c.St.Path[:n0]
	// evaluating on dummy arguments may have materialised heap arrays: harmless, but keep the heap map as it was
	for k := range c.St.Heap {
		if _, ok := savedHeap[k]; !ok {
			delete(c.St.Heap, k)
		}
	}
	return eff
}
