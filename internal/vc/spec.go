package vc

// Specification expression language: lexer, AST and parser.
//
// Syntax is Go-expression-like with additions:
//   a ==> b, a <==> b, c ? x : y, forall k int, j int :: body, exists k int :: body,
//   old(e), chained comparisons a <= b < c.

import (
	"fmt"
	"strings"
)

type SExpr interface{ String() string }

type (
	SIdent struct{ Name string }
	SNum   struct{ Text string } // integer, float or hex literal
	SBin   struct {
		Op   string
		L, R SExpr
	}
	SUn struct {
		Op string
		X  SExpr
	}
	SCall struct {
		Fun  SExpr
		Args []SExpr
	}
	SSel struct {
		X    SExpr
		Name string
	}
	SIndex struct{ X, I SExpr }
	SSlice struct{ X, Lo, Hi SExpr }
	SCond  struct{ C, A, B SExpr }
	SQuant struct {
		Lambda bool // array comprehension: lambda k int :: e
		Forall bool
		Vars   []SBinder
		Body   SExpr
		Pats   [][]SExpr // optional triggers {:pat e1, e2}
	}
	SBinder struct{ Name, Type string }
)

func (e *SIdent) String() string { return e.Name }
func (e *SNum) String() string   { return e.Text }
func (e *SBin) String() string   { return "(" + e.L.String() + " " + e.Op + " " + e.R.String() + ")" }
func (e *SUn) String() string    { return e.Op + e.X.String() }
func (e *SCall) String() string {
	var a []string
	for _, x := range e.Args {
		a = append(a, x.String())
	}
	return e.Fun.String() + "(" + strings.Join(a, ", ") + ")"
}
func (e *SSel) String() string   { return e.X.String() + "." + e.Name }
func (e *SIndex) String() string { return e.X.String() + "[" + e.I.String() + "]" }
func (e *SSlice) String() string {
	lo, hi := "", ""
	if e.Lo != nil {
		lo = e.Lo.String()
	}
	if e.Hi != nil {
		hi = e.Hi.String()
	}
	return e.X.String() + "[" + lo + ":" + hi + "]"
}
func (e *SCond) String() string {
	return "(" + e.C.String() + " ? " + e.A.String() + " : " + e.B.String() + ")"
}
func (e *SQuant) String() string {
	q := "exists"
	if e.Forall {
		q = "forall"
	}
	if e.Lambda {
		q = "lambda"
	}
	var b []string
	for _, v := range e.Vars {
		b = append(b, v.Name+" "+v.Type)
	}
	return "(" + q + " " + strings.Join(b, ", ") + " :: " + e.Body.String() + ")"
}

// ---------------------------------------------------------------- lexer

type tok struct {
	kind string // "id", "num", "op", "eof"
	text string
	pos  int
}

func lexSpec(s string) ([]tok, error) {
	var out []tok
	i := 0
	ops := []string{"<==>", "==>", "::", "<<", ">>", "&&", "||", "==", "!=", "<=", ">=", "&^",
		"+", "-", "*", "/", "%", "<", ">", "!", "(", ")", "[", "]", ",", ".", ":", "?", "&", "|", "^", "{", "}"}
	for i < len(s) {
		c := s[i]
		if c == ' ' || c == '\t' || c == '\n' || c == '\r' {
			i++
			continue
		}
		if isIdStart(c) {
			j := i + 1
			for j < len(s) && (isIdStart(s[j]) || (s[j] >= '0' && s[j] <= '9')) {
				j++
			}
			out = append(out, tok{"id", s[i:j], i})
			i = j
			continue
		}
		if c >= '0' && c <= '9' {
			j := i + 1
			if c == '0' && j < len(s) && (s[j] == 'x' || s[j] == 'X' || s[j] == 'b') {
				j++
				for j < len(s) && (isHex(s[j]) || s[j] == '_') {
					j++
				}
			} else {
				for j < len(s) && ((s[j] >= '0' && s[j] <= '9') || s[j] == '_') {
					j++
				}
				if j < len(s) && s[j] == '.' && j+1 < len(s) && s[j+1] >= '0' && s[j+1] <= '9' {
					j++
					for j < len(s) && s[j] >= '0' && s[j] <= '9' {
						j++
					}
				}
				if j < len(s) && (s[j] == 'e' || s[j] == 'E') {
					k := j + 1
					if k < len(s) && (s[k] == '+' || s[k] == '-') {
						k++
					}
					if k < len(s) && s[k] >= '0' && s[k] <= '9' {
						for k < len(s) && s[k] >= '0' && s[k] <= '9' {
							k++
						}
						j = k
					}
				}
			}
			out = append(out, tok{"num", strings.ReplaceAll(s[i:j], "_", ""), i})
			i = j
			continue
		}
		matched := false
		for _, op := range ops {
			if strings.HasPrefix(s[i:], op) {
				out = append(out, tok{"op", op, i})
				i += len(op)
				matched = true
				break
			}
		}
		if !matched {
			return nil, fmt.Errorf("spec: unexpected character %q at %d in %q", c, i, s)
		}
	}
	out = append(out, tok{"eof", "", len(s)})
	return out, nil
}

func isIdStart(c byte) bool {
	return c == '_' || c == '$' || (c >= 'a' && c <= 'z') || (c >= 'A' && c <= 'Z')
}
func isHex(c byte) bool {
	return (c >= '0' && c <= '9') || (c >= 'a' && c <= 'f') || (c >= 'A' && c <= 'F')
}

// ---------------------------------------------------------------- parser

type sparser struct {
	toks []tok
	p    int
	src  string
}

func ParseSpec(src string) (e SExpr, err error) {
	toks, err := lexSpec(src)
	if err != nil {
		return nil, err
	}
	ps := &sparser{toks: toks, src: src}
	defer func() {
		if r := recover(); r != nil {
			if pe, ok := r.(specParseErr); ok {
				err = fmt.Errorf("%s", string(pe))
				return
			}
			panic(r)
		}
	}()
	e = ps.expr()
	if ps.peek().kind != "eof" {
		ps.fail("trailing input %q", ps.peek().text)
	}
	return e, nil
}

type specParseErr string

func (ps *sparser) fail(f string, a ...interface{}) {
	panic(specParseErr(fmt.Sprintf("spec parse error at %d in %q: ", ps.peek().pos, ps.src) + fmt.Sprintf(f, a...)))
}
func (ps *sparser) peek() tok { return ps.toks[ps.p] }
func (ps *sparser) next() tok { t := ps.toks[ps.p]; ps.p++; return t }
func (ps *sparser) isOp(s string) bool {
	t := ps.peek()
	return t.kind == "op" && t.text == s
}
func (ps *sparser) accept(s string) bool {
	if ps.isOp(s) {
		ps.p++
		return true
	}
	return false
}
func (ps *sparser) expect(s string) {
	if !ps.accept(s) {
		ps.fail("expected %q, got %q", s, ps.peek().text)
	}
}

func (ps *sparser) expr() SExpr {
	t := ps.peek()
	if t.kind == "id" && (t.text == "forall" || t.text == "exists" || t.text == "lambda") {
		ps.next()
		q := &SQuant{Forall: t.text == "forall", Lambda: t.text == "lambda"}
		for {
			n := ps.next()
			if n.kind != "id" {
				ps.fail("binder name expected")
			}
			ty := ps.typeName()
			q.Vars = append(q.Vars, SBinder{n.text, ty})
			if !ps.accept(",") {
				break
			}
		}
		ps.expect("::")
		for ps.isOp("{") {
			ps.next()
			var pat []SExpr
			for {
				pat = append(pat, ps.expr())
				if !ps.accept(",") {
					break
				}
			}
			ps.expect("}")
			q.Pats = append(q.Pats, pat)
		}
		q.Body = ps.expr()
		return q
	}
	return ps.implies()
}

func (ps *sparser) typeName() string {
	s := ""
	for ps.isOp("*") || ps.isOp("[") {
		if ps.accept("*") {
			s += "*"
		} else {
			ps.next()
			ps.expect("]")
			s += "[]"
		}
	}
	n := ps.next()
	if n.kind != "id" {
		ps.fail("type name expected")
	}
	s += n.text
	if ps.isOp(".") {
		ps.next()
		m := ps.next()
		s += "." + m.text
	}
	return s
}

func (ps *sparser) implies() SExpr {
	l := ps.or()
	if ps.accept("==>") {
		r := ps.expr() // right assoc, allows quantifier on the right
		return &SBin{"==>", l, r}
	}
	if ps.accept("<==>") {
		r := ps.or()
		return &SBin{"<==>", l, r}
	}
	if ps.accept("?") {
		a := ps.expr()
		ps.expect(":")
		b := ps.expr()
		return &SCond{l, a, b}
	}
	return l
}

func (ps *sparser) or() SExpr {
	l := ps.and()
	for ps.accept("||") {
		r := ps.and()
		l = &SBin{"||", l, r}
	}
	return l
}

func (ps *sparser) and() SExpr {
	l := ps.cmp()
	for ps.accept("&&") {
		r := ps.cmp()
		l = &SBin{"&&", l, r}
	}
	return l
}

var cmpOps = map[string]bool{"==": true, "!=": true, "<": true, "<=": true, ">": true, ">=": true}

func (ps *sparser) cmp() SExpr {
	t := ps.peek()
	if t.kind == "id" && (t.text == "forall" || t.text == "exists" || t.text == "lambda") {
		return ps.expr()
	}
	l := ps.add()
	var res SExpr
	for ps.peek().kind == "op" && cmpOps[ps.peek().text] {
		op := ps.next().text
		r := ps.add()
		c := &SBin{op, l, r}
		if res == nil {
			res = c
		} else {
			res = &SBin{"&&", res, c}
		}
		l = r
	}
	if res == nil {
		return l
	}
	return res
}

func (ps *sparser) add() SExpr {
	l := ps.mul()
	for ps.isOp("+") || ps.isOp("-") || ps.isOp("|") || ps.isOp("^") {
		op := ps.next().text
		r := ps.mul()
		l = &SBin{op, l, r}
	}
	return l
}

func (ps *sparser) mul() SExpr {
	l := ps.unary()
	for ps.isOp("*") || ps.isOp("/") || ps.isOp("%") || ps.isOp("<<") || ps.isOp(">>") || ps.isOp("&") || ps.isOp("&^") {
		op := ps.next().text
		r := ps.unary()
		l = &SBin{op, l, r}
	}
	return l
}

func (ps *sparser) unary() SExpr {
	if ps.isOp("-") || ps.isOp("!") || ps.isOp("^") || ps.isOp("*") {
		op := ps.next().text
		x := ps.unary()
		return &SUn{op, x}
	}
	return ps.postfix()
}

func (ps *sparser) postfix() SExpr {
	x := ps.primary()
	for {
		switch {
		case ps.accept("."):
			n := ps.next()
			if n.kind != "id" {
				ps.fail("field name expected")
			}
			x = &SSel{x, n.text}
		case ps.accept("["):
			var lo, hi SExpr
			if ps.isOp(":") {
				ps.next()
				if !ps.isOp("]") {
					hi = ps.expr()
				}
				ps.expect("]")
				x = &SSlice{x, nil, hi}
				continue
			}
			lo = ps.expr()
			if ps.accept(":") {
				if !ps.isOp("]") {
					hi = ps.expr()
				}
				ps.expect("]")
				x = &SSlice{x, lo, hi}
				continue
			}
			ps.expect("]")
			x = &SIndex{x, lo}
		case ps.accept("("):
			var args []SExpr
			if !ps.isOp(")") {
				for {
					args = append(args, ps.expr())
					if !ps.accept(",") {
						break
					}
				}
			}
			ps.expect(")")
			x = &SCall{x, args}
		default:
			return x
		}
	}
}

func (ps *sparser) primary() SExpr {
	t := ps.next()
	switch t.kind {
	case "id":
		return &SIdent{t.text}
	case "num":
		return &SNum{t.text}
	case "op":
		if t.text == "(" {
			e := ps.expr()
			ps.expect(")")
			return e
		}
	}
	ps.p--
	ps.fail("unexpected token %q", t.text)
	return nil
}
