package vc

// Contract files: comment-only Go files (//go:build verif) whose `//@` lines carry the contracts.

import (
	"bufio"
	"fmt"
	"os"
	"regexp"
	"sort"
	"strconv"
	"strings"
)

type Clause struct {
	E      SExpr
	Src    string
	Label  string
	Serves []string
	Using  []SExpr // lemma instances to bring in when proving this clause
	Assumed string // non-empty: this postcondition is not proved against the body (reason); callers still rely on it
	File   string
	Line   int
}

type LoopSpec struct {
	Invariants []*Clause
	Decreases  *Clause
	Unroll     int // >0: unroll that many iterations with an unwinding assertion
}

type GhostVar struct {
	Name, Type string
	Init       SExpr
}

type GhostUpdate struct {
	Name string
	E    SExpr
}

type CallbackSpec struct {
	Name         string
	ParamNames   []string
	ResultNames  []string
	Requires     []*Clause
	Ensures      []*Clause
	Preserves    []SExpr
	GhostUpdates []GhostUpdate
}

// AfterCall: ghost statements executed right after the n-th call of a callee (results bound to $result, $result1...).
type AfterCall struct {
	Kind  string // ghost | assume | assert
	Name  string // ghost variable (Kind ghost)
	C     *Clause
}

type Contract struct {
	After     map[string][]AfterCall // "pkg.Callee#n"
	GhostVars []GhostVar
	Hints     []SExpr // lemma instances re-instantiated in the current state before every obligation
	Uses      []string
	Callbacks map[string]*CallbackSpec
	Pkg      string // package name (short)
	Name     string // "Recv.Func" or "Func"
	Ints     string // "", "wrap", "bv"
	Floats   string // "", "real", "ext", "ieee"
	Ghost    []SBinder
	Requires []*Clause
	Ensures  []*Clause
	Modifies []SExpr
	ModSrc   []string
	Loops    map[int]*LoopSpec
	Foreach  map[int]*LoopSpec
	Trusted  string // non-empty: body not verified, reason
	Bounded  string // non-empty: name of the bounded stand-in for the trusted body
	Inline   bool
	Serves   []string
	Pure     bool // no heap effects: shorthand for `modifies` nothing (default anyway)
	File     string
	Line     int
	Used     bool
}

type SpecFun struct {
	Pkg    string
	Name   string
	Params []SBinder
	Ret    string
	Body   SExpr // nil: uninterpreted
	IsPred bool
	Opaque bool
	View   bool // evaluated through a named logical array over its last parameter (gives quantifiers a good trigger)
	File   string
	Line   int
}

type Lemma struct {
	Pkg       string
	Name      string
	Params    []SBinder
	Requires  []*Clause
	Ensures   []*Clause
	Induction string // parameter name for induction (natural: step from x-1 to x), "" none
	IndBase   string // expression text for base bound, default 0 (case x <= base is the base case)
	TwoState  bool   // mentions old(): proved for an arbitrary pair of heaps
	Axiom     bool   // trusted, not proved
	Auto      bool   // assumed as a quantified axiom in every obligation of the package (with patterns)
	Definition bool  // defining equation of an uninterpreted spec function introduced by `define` (conservative, not an assumption)
	Pats      [][]SExpr
	Uses      []string
	Serves    []string
	File      string
	Line      int
}

type PkgSpec struct {
	Pkg       string
	Ints      string
	Floats    string
	Contracts map[string]*Contract
	Funs      map[string]*SpecFun
	Lemmas    map[string]*Lemma
	LemmaList []*Lemma
	Files     []string
	GlobalInvs []*Clause
	Immutable []string // struct types whose fields are never written after construction
	Defines   []string // names of the defining axioms introduced by `define` (assumed in every obligation of the package)
}

var clauseKeywords = map[string]bool{
	"vfun": true, "requires": true, "ensures": true, "modifies": true, "loop": true, "foreach": true, "serves": true,
	"trusted": true, "func": true, "fun": true, "define": true, "immutable": true, "pred": true, "lemma": true, "axiom": true, "mode": true,
	"ghost": true, "inline": true, "pure": true, "bounded": true, "opaque": true,
	"uses": true, "callback": true, "globalinv": true, "pattern": true, "hint": true, "footprint": true, "covers": true, "after": true,
}

type rawLine struct {
	text string
	file string
	line int
}

// LoadContracts reads all `//@` lines of the given files (in order) into a PkgSpec.
func LoadContracts(pkgName string, files []string) (*PkgSpec, error) {
	ps := &PkgSpec{Pkg: pkgName, Ints: "wrap", Floats: "real",
		Contracts: map[string]*Contract{}, Funs: map[string]*SpecFun{}, Lemmas: map[string]*Lemma{}}
	sort.Strings(files)
	for _, f := range files {
		fh, err := os.Open(f)
		if err != nil {
			return nil, err
		}
		sc := bufio.NewScanner(fh)
		sc.Buffer(make([]byte, 1<<20), 1<<20)
		var lines []rawLine
		n := 0
		any := false
		for sc.Scan() {
			n++
			t := strings.TrimSpace(sc.Text())
			if strings.HasPrefix(t, "//@") {
				any = true
				body := strings.TrimSpace(t[3:])
				if i := strings.Index(body, " //"); i >= 0 { // trailing comment
					body = strings.TrimSpace(body[:i])
				}
				if strings.HasPrefix(body, "//") {
					continue
				}
				lines = append(lines, rawLine{body, f, n})
			}
		}
		fh.Close()
		if !any {
			continue
		}
		ps.Files = append(ps.Files, f)
		if err := ps.parseLines(lines); err != nil {
			return nil, err
		}
	}
	return ps, nil
}

// group continuation lines with the preceding keyword line
func groupLines(lines []rawLine) []rawLine {
	var out []rawLine
	for _, l := range lines {
		if l.text == "" {
			continue
		}
		first := l.text
		if i := strings.IndexAny(first, " \t("); i >= 0 {
			first = first[:i]
		}
		if clauseKeywords[first] || len(out) == 0 {
			out = append(out, l)
		} else {
			out[len(out)-1].text += " " + l.text
		}
	}
	return out
}

var (
	reFunc   = regexp.MustCompile(`^func\s+([A-Za-z_][\w.]*)\s*(.*)$`)
	reFun    = regexp.MustCompile(`^(fun|pred|vfun|define)\s+([A-Za-z_]\w*)\s*\(([^)]*)\)\s*([\w.*\[\]]*)\s*(?::=\s*(.*))?$`)
	reLemma  = regexp.MustCompile(`^(lemma|axiom)\s+([A-Za-z_]\w*)\s*\(([^)]*)\)\s*(.*)$`)
	reLoop   = regexp.MustCompile(`^(loop|foreach)\s+#?(\d+)\s+(invariant|decreases|unroll)\s*(.*)$`)
	reFootprint = regexp.MustCompile(`^footprint\s+([A-Za-z_]\w*)\s*\(\s*(\w+)\s*\)\s*:=\s*(.*)$`)
	reAfter = regexp.MustCompile(`^([\w.]+#\d+)\s+(ghost|assume|assert)\s+(.*)$`)
	reLabel  = regexp.MustCompile(`^([A-Za-z_][\w\-]*):\s+(.*)$`)
	reServes = regexp.MustCompile(`\s+serves((?:\s+C\d+)+)\s*`)
)

func parseBinders(s string) ([]SBinder, error) {
	s = strings.TrimSpace(s)
	if s == "" {
		return nil, nil
	}
	var out []SBinder
	for _, part := range strings.Split(s, ",") {
		f := strings.Fields(part)
		if len(f) != 2 {
			return nil, fmt.Errorf("bad binder %q", part)
		}
		out = append(out, SBinder{f[0], f[1]})
	}
	// allow "a, b int"
	return out, nil
}

func parseBindersLoose(s string) ([]SBinder, error) {
	s = strings.TrimSpace(s)
	if s == "" {
		return nil, nil
	}
	parts := strings.Split(s, ",")
	out := make([]SBinder, len(parts))
	for i := len(parts) - 1; i >= 0; i-- {
		f := strings.Fields(parts[i])
		switch len(f) {
		case 2:
			out[i] = SBinder{f[0], f[1]}
		case 1:
			if i+1 >= len(parts) {
				return nil, fmt.Errorf("bad binder list %q", s)
			}
			out[i] = SBinder{f[0], out[i+1].Type}
		default:
			return nil, fmt.Errorf("bad binder %q", parts[i])
		}
	}
	return out, nil
}

func (ps *PkgSpec) parseClause(text string, l rawLine) (*Clause, error) {
	c := &Clause{File: l.file, Line: l.line}
	// `ensures assumed[reason] label: expr`: a postcondition that is trusted while the rest of the body is verified
	if strings.HasPrefix(text, "assumed[") {
		if j := strings.Index(text, "]"); j > 0 {
			c.Assumed = text[len("assumed["):j]
			text = strings.TrimSpace(text[j+1:])
		}
	}
	// using
	if i := strings.LastIndex(text, " using "); i >= 0 {
		us := text[i+7:]
		text = text[:i]
		e, err := ParseSpec("$tuple(" + us + ")")
		if err != nil {
			return nil, fmt.Errorf("%s:%d: %v", l.file, l.line, err)
		}
		c.Using = e.(*SCall).Args
	}
	if m := reServes.FindStringSubmatchIndex(text + " "); m != nil {
		t2 := text + " "
		c.Serves = strings.Fields(t2[m[2]:m[3]])
		text = strings.TrimSpace(t2[:m[0]] + " " + t2[m[1]:])
	}
	if m := reLabel.FindStringSubmatch(text); m != nil && !strings.HasPrefix(m[2], ":") {
		c.Label = m[1]
		text = m[2]
	}
	e, err := ParseSpec(text)
	if err != nil {
		return nil, fmt.Errorf("%s:%d: %v", l.file, l.line, err)
	}
	c.E = e
	c.Src = text
	return c, nil
}

func (ps *PkgSpec) parseLines(raw []rawLine) error {
	lines := groupLines(raw)
	var cur *Contract
	var curLemma *Lemma
	for _, l := range lines {
		t := l.text
		kw := t
		if i := strings.IndexAny(kw, " \t("); i >= 0 {
			kw = kw[:i]
		}
		rest := strings.TrimSpace(t[len(kw):])
		errf := func(f string, a ...interface{}) error {
			return fmt.Errorf("%s:%d: %s", l.file, l.line, fmt.Sprintf(f, a...))
		}
		switch kw {
		case "mode":
			for _, kv := range strings.Fields(rest) {
				p := strings.SplitN(kv, "=", 2)
				if len(p) != 2 {
					return errf("bad mode %q", kv)
				}
				tgtI, tgtF := &ps.Ints, &ps.Floats
				if cur != nil {
					tgtI, tgtF = &cur.Ints, &cur.Floats
				}
				switch p[0] {
				case "ints":
					*tgtI = p[1]
				case "floats":
					*tgtF = p[1]
				default:
					return errf("bad mode key %q", p[0])
				}
			}
		case "func":
			m := reFunc.FindStringSubmatch(t)
			if m == nil {
				return errf("bad func line %q", t)
			}
			if _, dup := ps.Contracts[m[1]]; dup {
				return errf("duplicate contract for %s", m[1])
			}
			cur = &Contract{Pkg: ps.Pkg, Name: m[1], Loops: map[int]*LoopSpec{}, Foreach: map[int]*LoopSpec{}, Callbacks: map[string]*CallbackSpec{}, File: l.file, Line: l.line}
			curLemma = nil
			ps.Contracts[m[1]] = cur
		case "fun", "pred", "vfun", "define":
			m := reFun.FindStringSubmatch(t)
			if m == nil {
				return errf("bad %s line %q", kw, t)
			}
			bs, err := parseBindersLoose(m[3])
			if err != nil {
				return errf("%v", err)
			}
			sf := &SpecFun{Pkg: ps.Pkg, Name: m[2], Params: bs, Ret: m[4], IsPred: m[1] == "pred", View: m[1] == "vfun", File: l.file, Line: l.line}
			if sf.IsPred {
				sf.Ret = "bool"
			}
			if m[5] != "" {
				e, err := ParseSpec(m[5])
				if err != nil {
					return errf("%v", err)
				}
				sf.Body = e
			}
			if _, dup := ps.Funs[sf.Name]; dup {
				return errf("duplicate spec function %s", sf.Name)
			}
			ps.Funs[sf.Name] = sf
			cur, curLemma = nil, nil
			if kw == "define" {
				// a named symbol with its defining equation as a pattern-triggered axiom: F(args) == body
				if sf.Body == nil {
					return errf("define needs a body")
				}
				var args []SExpr
				for _, b := range bs {
					args = append(args, &SIdent{b.Name})
				}
				app := &SCall{Fun: &SIdent{sf.Name}, Args: args}
				op := "=="
				if sf.Ret == "bool" {
					op = "<==>"
				}
				lm := &Lemma{Pkg: ps.Pkg, Name: sf.Name + "$def", Params: bs, Axiom: true, Definition: true, File: l.file, Line: l.line,
					Ensures: []*Clause{{E: &SBin{op, app, sf.Body}, Src: sf.Name + " definition", File: l.file, Line: l.line}},
					Pats:    [][]SExpr{{app}}}
				sf.Body = nil
				ps.Lemmas[lm.Name] = lm
				ps.LemmaList = append(ps.LemmaList, lm)
				ps.Defines = append(ps.Defines, lm.Name)
			}
		case "lemma", "axiom":
			m := reLemma.FindStringSubmatch(t)
			if m == nil {
				return errf("bad lemma line %q", t)
			}
			bs, err := parseBindersLoose(m[3])
			if err != nil {
				return errf("%v", err)
			}
			lm := &Lemma{Pkg: ps.Pkg, Name: m[2], Params: bs, Axiom: m[1] == "axiom", File: l.file, Line: l.line}
			for _, opt := range strings.Fields(m[4]) {
				switch {
				case strings.HasPrefix(opt, "induction="):
					lm.Induction = opt[len("induction="):]
				case strings.HasPrefix(opt, "base="):
					lm.IndBase = opt[len("base="):]
				case opt == "auto":
					lm.Auto = true
				case opt == "twostate":
					lm.TwoState = true
				default:
					return errf("bad lemma option %q", opt)
				}
			}
			if _, dup := ps.Lemmas[lm.Name]; dup {
				return errf("duplicate lemma %s", lm.Name)
			}
			ps.Lemmas[lm.Name] = lm
			ps.LemmaList = append(ps.LemmaList, lm)
			curLemma, cur = lm, nil
		case "requires", "ensures":
			c, err := ps.parseClause(rest, l)
			if err != nil {
				return err
			}
			switch {
			case cur != nil && kw == "requires":
				cur.Requires = append(cur.Requires, c)
			case cur != nil:
				cur.Ensures = append(cur.Ensures, c)
			case curLemma != nil && kw == "requires":
				curLemma.Requires = append(curLemma.Requires, c)
			case curLemma != nil:
				curLemma.Ensures = append(curLemma.Ensures, c)
			default:
				return errf("%s outside func/lemma", kw)
			}
		case "modifies":
			if cur == nil {
				return errf("modifies outside func")
			}
			if rest == "nothing" || rest == "" {
				break
			}
			e, err := ParseSpec("$tuple(" + rest + ")")
			if err != nil {
				return errf("%v", err)
			}
			cur.Modifies = append(cur.Modifies, e.(*SCall).Args...)
			cur.ModSrc = append(cur.ModSrc, rest)
		case "loop", "foreach":
			if cur == nil {
				return errf("loop outside func")
			}
			m := reLoop.FindStringSubmatch(t)
			if m == nil {
				return errf("bad loop line %q", t)
			}
			n, _ := strconv.Atoi(m[2])
			tbl := cur.Loops
			if m[1] == "foreach" {
				tbl = cur.Foreach
			}
			ls := tbl[n]
			if ls == nil {
				ls = &LoopSpec{}
				tbl[n] = ls
			}
			switch m[3] {
			case "invariant":
				c, err := ps.parseClause(m[4], l)
				if err != nil {
					return err
				}
				ls.Invariants = append(ls.Invariants, c)
			case "decreases":
				c, err := ps.parseClause(m[4], l)
				if err != nil {
					return err
				}
				ls.Decreases = c
			case "unroll":
				k, err := strconv.Atoi(strings.TrimSpace(m[4]))
				if err != nil {
					return errf("bad unroll count")
				}
				ls.Unroll = k
			}
		case "serves":
			switch {
			case cur != nil:
				cur.Serves = append(cur.Serves, strings.Fields(rest)...)
			case curLemma != nil:
				curLemma.Serves = append(curLemma.Serves, strings.Fields(rest)...)
			default:
				return errf("serves outside func/lemma")
			}
		case "trusted":
			if cur == nil {
				return errf("trusted outside func")
			}
			if rest == "" {
				rest = "trusted"
			}
			cur.Trusted = rest
		case "bounded":
			if cur == nil {
				return errf("bounded outside func")
			}
			cur.Bounded = rest
		case "inline":
			if cur == nil {
				return errf("inline outside func")
			}
			cur.Inline = true
		case "pure":
			if cur == nil {
				return errf("pure outside func")
			}
			cur.Pure = true
		case "ghost":
			if cur == nil {
				return errf("ghost outside func")
			}
			decl, init := rest, ""
			if i := strings.Index(rest, ":="); i >= 0 {
				decl, init = strings.TrimSpace(rest[:i]), strings.TrimSpace(rest[i+2:])
			}
			f := strings.Fields(decl)
			if len(f) != 2 {
				return errf("bad ghost declaration %q", rest)
			}
			g := GhostVar{Name: f[0], Type: f[1]}
			if init != "" {
				e, err := ParseSpec(init)
				if err != nil {
					return errf("%v", err)
				}
				g.Init = e
			}
			cur.GhostVars = append(cur.GhostVars, g)
		case "uses":
			switch {
			case cur != nil:
				cur.Uses = append(cur.Uses, strings.Fields(rest)...)
			case curLemma != nil:
				curLemma.Uses = append(curLemma.Uses, strings.Fields(rest)...)
			default:
				return errf("uses outside func/lemma")
			}
		case "covers":
			for _, n := range strings.Fields(rest) {
				ps.Funs["Covers$"+n] = &SpecFun{Pkg: ps.Pkg, Name: "Covers$" + n, File: l.file, Line: l.line}
			}
			cur, curLemma = nil, nil
		case "footprint":
			m := reFootprint.FindStringSubmatch(t)
			if m == nil {
				return errf("bad footprint line %q", t)
			}
			e, err := ParseSpec("$tuple(" + m[3] + ")")
			if err != nil {
				return errf("%v", err)
			}
			ps.Funs["Footprint$"+m[1]] = &SpecFun{Pkg: ps.Pkg, Name: "Footprint$" + m[1], Params: []SBinder{{m[2], "*" + m[1]}}, Body: e, File: l.file, Line: l.line}
			cur, curLemma = nil, nil
		case "after":
			if cur == nil {
				return errf("after outside func")
			}
			m := reAfter.FindStringSubmatch(rest)
			if m == nil {
				return errf("bad after clause %q", rest)
			}
			ac := AfterCall{Kind: m[2]}
			body := m[3]
			if ac.Kind == "ghost" {
				i := strings.Index(body, ":=")
				if i < 0 {
					return errf("bad ghost update %q", body)
				}
				ac.Name = strings.TrimSpace(body[:i])
				body = strings.TrimSpace(body[i+2:])
			}
			c, err := ps.parseClause(body, l)
			if err != nil {
				return err
			}
			ac.C = c
			if cur.After == nil {
				cur.After = map[string][]AfterCall{}
			}
			cur.After[m[1]] = append(cur.After[m[1]], ac)
		case "hint":
			if cur == nil {
				return errf("hint outside func")
			}
			e, err := ParseSpec("$tuple(" + rest + ")")
			if err != nil {
				return errf("%v", err)
			}
			cur.Hints = append(cur.Hints, e.(*SCall).Args...)
		case "pattern":
			if curLemma == nil {
				return errf("pattern outside lemma")
			}
			e, err := ParseSpec("$tuple(" + rest + ")")
			if err != nil {
				return errf("%v", err)
			}
			curLemma.Pats = append(curLemma.Pats, e.(*SCall).Args)
		case "globalinv":
			c, err := ps.parseClause(rest, l)
			if err != nil {
				return err
			}
			ps.GlobalInvs = append(ps.GlobalInvs, c)
		case "callback":
			if cur == nil {
				return errf("callback outside func")
			}
			f := strings.Fields(rest)
			if len(f) < 2 {
				return errf("bad callback clause %q", rest)
			}
			name := f[0]
			cb := cur.Callbacks[name]
			if cb == nil {
				cb = &CallbackSpec{Name: name}
				cur.Callbacks[name] = cb
			}
			body := strings.TrimSpace(strings.TrimPrefix(strings.TrimSpace(rest[len(name):]), f[1]))
			switch f[1] {
			case "params":
				for _, n := range strings.Split(body, ",") {
					cb.ParamNames = append(cb.ParamNames, strings.TrimSpace(n))
				}
			case "results":
				for _, n := range strings.Split(body, ",") {
					cb.ResultNames = append(cb.ResultNames, strings.TrimSpace(n))
				}
			case "requires", "ensures":
				c, err := ps.parseClause(body, l)
				if err != nil {
					return err
				}
				if f[1] == "requires" {
					cb.Requires = append(cb.Requires, c)
				} else {
					cb.Ensures = append(cb.Ensures, c)
				}
			case "preserves":
				e, err := ParseSpec("$tuple(" + body + ")")
				if err != nil {
					return errf("%v", err)
				}
				cb.Preserves = append(cb.Preserves, e.(*SCall).Args...)
			case "ghost":
				i := strings.Index(body, ":=")
				if i < 0 {
					return errf("bad callback ghost update %q", body)
				}
				e, err := ParseSpec(strings.TrimSpace(body[i+2:]))
				if err != nil {
					return errf("%v", err)
				}
				cb.GhostUpdates = append(cb.GhostUpdates, GhostUpdate{strings.TrimSpace(body[:i]), e})
			default:
				return errf("bad callback clause kind %q", f[1])
			}
		case "immutable":
			ps.Immutable = append(ps.Immutable, strings.Fields(rest)...)
			cur, curLemma = nil, nil
		case "opaque":
			// opaque F : mark spec function opaque
			for _, n := range strings.Fields(rest) {
				if sf := ps.Funs[n]; sf != nil {
					sf.Opaque = true
				} else {
					return errf("opaque: unknown spec function %q", n)
				}
			}
		default:
			return errf("unknown contract keyword %q", kw)
		}
	}
	return nil
}
