package vc

// Symbolic evaluation of Go expressions.

import (
	"go/ast"
	"go/constant"
	"go/token"
	"go/types"
	"math"
	"math/big"
)

var bigZero = big.NewInt(0)

func (c *Ctx) info() *types.Info { return c.Fr.Pkg.P.TypesInfo }

func (c *Ctx) typeOf(e ast.Expr) types.Type {
	if tv, ok := c.info().Types[e]; ok {
		return tv.Type
	}
	if id, ok := e.(*ast.Ident); ok {
		if o := c.info().ObjectOf(id); o != nil {
			return o.Type()
		}
	}
	c.refuse("no type for expression")
	return nil
}

func (c *Ctx) sortFor(t types.Type) Sort { return scalarSort(t, c.Fr.Ints, c.Fr.Floats) }

// fpLit renders a float64 as an SMT FloatingPoint literal.
func fpLit(f float64) Term { return FPLit(f) }

func (c *Ctx) constVal(cv constant.Value, t types.Type) *Val {
	switch classify(t) {
	case TBool:
		return Scalar(BoolLit(constant.BoolVal(cv)), t)
	case TInt:
		n, ok := new(big.Int).SetString(constant.ToInt(cv).ExactString(), 10)
		if !ok {
			c.refuse("bad integer constant %s", cv.ExactString())
		}
		if s := c.sortFor(t); s.IsBV() {
			return Scalar(BVLit(n, s.BVWidth()), t)
		}
		return Scalar(IntLitBig(n), t)
	case TFloat:
		switch c.Fr.Floats {
		case "ieee":
			f, _ := constant.Float64Val(cv)
			return Scalar(fpLit(f), t)
		default:
			// the constant as the real number the compiler rounds to binary64
			f, _ := constant.Float64Val(cv)
			r := new(big.Rat)
			if math.IsInf(f, 0) || math.IsNaN(f) {
				c.refuse("non-finite float constant")
			}
			r.SetFloat64(f)
			tm := RealLitRat(r)
			if c.Fr.Floats == "ext" {
				tm = App(SF, "xfin", tm)
			}
			return Scalar(tm, t)
		}
	case TString:
		h := int64(0)
		for _, ch := range constant.StringVal(cv) {
			h = (h*131 + int64(ch)) % 1000003
		}
		return Scalar(IntLit(-2000000-h), t)
	}
	c.refuse("unsupported constant of type %s", t)
	return nil
}

func (c *Ctx) eval(e ast.Expr) *Val {
	if e.Pos().IsValid() {
		c.curPos = e.Pos()
	}
	if tv, ok := c.info().Types[e]; ok && tv.Value != nil {
		return c.constVal(tv.Value, tv.Type)
	}
	switch x := e.(type) {
	case *ast.ParenExpr:
		return c.eval(x.X)
	case *ast.Ident:
		return c.evalIdent(x)
	case *ast.BasicLit:
		c.refuse("literal without constant value")
	case *ast.BinaryExpr:
		return c.evalBinary(x)
	case *ast.UnaryExpr:
		return c.evalUnary(x)
	case *ast.StarExpr:
		p := c.eval(x.X)
		return c.deref(p, c.typeOf(x.X))
	case *ast.CallExpr:
		return c.evalCall(x)
	case *ast.SelectorExpr:
		return c.evalSelector(x)
	case *ast.IndexExpr:
		return c.evalIndex(x, false)
	case *ast.SliceExpr:
		return c.evalSliceExpr(x)
	case *ast.CompositeLit:
		return c.evalComposite(x, false)
	case *ast.FuncLit:
		return &Val{K: VFunc, Typ: c.typeOf(x), Fn: &FuncVal{Lit: x, Env: c.Fr, Sig: c.typeOf(x).(*types.Signature)}}
	case *ast.TypeAssertExpr:
		v := c.eval(x.X)
		tt := c.typeOf(x.Type)
		ok := c.typeTest(v, tt)
		c.assert("typeassert", "", ok, "type assertion "+types.ExprString(x), nil)
		return c.castIface(v, tt)
	}
	c.refuse("unsupported expression %T", e)
	return nil
}

func (c *Ctx) deref(p *Val, pt types.Type) *Val {
	if p.K == VPtrElem {
		elem := pt.Underlying().(*types.Pointer).Elem()
		return c.loadElem(nil, p.Arr, p.Off, elem)
	}
	ptr, ok := pt.Underlying().(*types.Pointer)
	if !ok {
		c.refuse("deref of non-pointer")
	}
	c.assert("nil", "", Not(Eq(p.T, IntLit(0))), "nil dereference", nil)
	if classify(pt) == TCell {
		return c.loadCell(nil, p.T, ptr.Elem())
	}
	// *structptr as a value: load all fields
	return c.loadStructValue(nil, p.T, ptr.Elem())
}

func (c *Ctx) loadStructValue(heap map[string]Term, ref Term, t types.Type) *Val {
	n, st := structOf(t)
	if n == nil || st == nil {
		c.refuse("struct value of unnamed type")
	}
	v := &Val{K: VStruct, Typ: t, F: map[string]*Val{}}
	for i := 0; i < st.NumFields(); i++ {
		f := st.Field(i)
		if f.Embedded() {
			if _, isStruct := f.Type().Underlying().(*types.Struct); isStruct {
				v.F[f.Name()] = c.loadStructValue(heap, ref, f.Type())
				continue
			}
		}
		v.F[f.Name()] = c.loadField(heap, ref, n, f)
	}
	return v
}

func (c *Ctx) storeStructValue(ref Term, t types.Type, v *Val) {
	n, st := structOf(t)
	for i := 0; i < st.NumFields(); i++ {
		f := st.Field(i)
		fv := v.F[f.Name()]
		if f.Embedded() {
			if _, isStruct := f.Type().Underlying().(*types.Struct); isStruct {
				if fv == nil {
					fv = c.zeroVal(f.Type(), c.Fr.Ints, c.Fr.Floats)
				}
				c.storeStructValue(ref, f.Type(), fv)
				continue
			}
		}
		if fv == nil {
			ints, floats := c.E.pkgModes(n.Obj().Pkg())
			fv = c.zeroVal(f.Type(), ints, floats)
		}
		c.storeField(ref, n, f, fv)
	}
}

func (c *Ctx) evalIdent(x *ast.Ident) *Val {
	if x.Name == "_" {
		c.refuse("blank identifier read")
	}
	obj := c.info().ObjectOf(x)
	switch o := obj.(type) {
	case *types.Nil:
		return Scalar(IntLit(0), c.typeOf(x))
	case *types.Const:
		return c.constVal(o.Val(), o.Type())
	case *types.Var:
		return c.readVar(o)
	case *types.Func:
		return &Val{K: VFunc, Typ: o.Type(), Fn: &FuncVal{Decl: o, Sig: o.Type().(*types.Signature)}}
	case *types.Builtin:
		c.refuse("builtin %s used as value", o.Name())
	}
	if x.Name == "true" {
		return Scalar(True, types.Typ[types.Bool])
	}
	if x.Name == "false" {
		return Scalar(False, types.Typ[types.Bool])
	}
	c.refuse("unresolved identifier %s", x.Name)
	return nil
}

func (c *Ctx) readVar(o *types.Var) *Val {
	if cell, ok := c.boxedCell(o); ok {
		return c.loadCell(nil, cell, o.Type())
	}
	if v, ok := c.Fr.lookupVar(o); ok {
		return v
	}
	if o.Pkg() != nil && o.Parent() == o.Pkg().Scope() {
		return c.readGlobal(o)
	}
	c.refuse("variable %s has no value", o.Name())
	return nil
}

func (c *Ctx) boxedCell(o *types.Var) (Term, bool) {
	for fr := c.Fr; fr != nil; fr = fr.Parent {
		if t, ok := fr.Boxed[o]; ok {
			return t, true
		}
	}
	return Term{}, false
}

// shareTerm names a large scalar term by a fresh constant so that later terms stay small.
func (c *Ctx) shareTerm(v *Val, hint string) *Val {
	if v != nil && v.K == VScalar && len(v.T.S) > 160 && !v.T.IsConst() {
		n := c.fresh(hint, v.T.Sort)
		c.assume(StructEq(n, v.T))
		return Scalar(n, v.Typ)
	}
	return v
}

func (c *Ctx) writeVar(o *types.Var, v *Val) {
	v = c.shareTerm(v, o.Name())
	if cell, ok := c.boxedCell(o); ok {
		c.storeCell(cell, o.Type(), v)
		return
	}
	if _, ok := c.Fr.lookupVar(o); ok {
		c.Fr.setVar(o, v)
		return
	}
	if o.Pkg() != nil && o.Parent() == o.Pkg().Scope() {
		c.refuse("assignment to package-level variable %s is outside the subset", o.Name())
	}
	c.Fr.declare(o, v)
}

// staticObjID gives package-level objects created by errors.New (and io.EOF) distinct negative identities.
func staticObjID(key string) int64 {
	h := int64(7)
	for _, ch := range key {
		h = (h*1000003 + int64(ch)) % 999999937
	}
	return -(1000 + h)
}

func (c *Ctx) readGlobal(o *types.Var) *Val {
	key := o.Pkg().Name() + "." + o.Name()
	t := o.Type()
	if types.Identical(t, types.Universe.Lookup("error").Type()) {
		id := IntLit(staticObjID(key))
		return Scalar(id, t)
	}
	pi := c.E.ByPath[o.Pkg().Path()]
	if pi != nil {
		// find the initializer
		for _, f := range pi.P.Syntax {
			for _, d := range f.Decls {
				gd, ok := d.(*ast.GenDecl)
				if !ok || gd.Tok != token.VAR {
					continue
				}
				for _, sp := range gd.Specs {
					vs := sp.(*ast.ValueSpec)
					for i, n := range vs.Names {
						if pi.P.TypesInfo.Defs[n] != o {
							continue
						}
						if len(vs.Values) != len(vs.Names) {
							c.refuse("package variable %s: tuple initializer", key)
						}
						init := vs.Values[i]
						if call, ok := init.(*ast.CallExpr); ok {
							if fo := calleeFunc(pi.P.TypesInfo, call); fo != nil {
								ct := c.E.contractOf(fo)
								if ct == nil || !ct.Inline {
									// table initialised by a contracted function: a global with a declared invariant
									return c.globalCell(key, t, pi)
								}
							}
						}
						// evaluate the initializer in the declaring package (pure expression)
						saved := c.Fr
						c.Fr = &Frame{Pkg: pi, Vars: map[types.Object]*Val{}, ByName: map[string][]types.Object{}, Ints: pi.Spec.Ints, Floats: pi.Spec.Floats, Boxed: map[types.Object]Term{}}
						defer func() { c.Fr = saved }()
						return c.eval(init)
					}
				}
			}
		}
	}
	return c.globalCell(key, t, pi)
}

func (c *Ctx) globalCell(key string, t types.Type, pi *PkgInfo) *Val {
	ints, floats := "wrap", "real"
	if pi != nil {
		ints, floats = pi.Spec.Ints, pi.Spec.Floats
	}
	name := "glob$" + key
	switch classify(t) {
	case TArray:
		at := t.Underlying().(*types.Array)
		es := scalarSort(at.Elem(), ints, floats)
		return &Val{K: VArray, Typ: t, N: at.Len(), T: c.heapArr(name, ArrSort(SInt, es))}
	case TInt, TFloat, TBool, TRef:
		return Scalar(c.heapArr(name, scalarSort(t, ints, floats)), t)
	}
	c.refuse("package-level variable %s of type %s is outside the subset", key, t)
	return nil
}

func calleeFunc(info *types.Info, call *ast.CallExpr) *types.Func {
	switch f := call.Fun.(type) {
	case *ast.Ident:
		fo, _ := info.ObjectOf(f).(*types.Func)
		return fo
	case *ast.SelectorExpr:
		fo, _ := info.ObjectOf(f.Sel).(*types.Func)
		return fo
	}
	return nil
}

// ---------------------------------------------------------------- operators

func (c *Ctx) isPure(e ast.Expr) bool {
	pure := true
	ast.Inspect(e, func(n ast.Node) bool {
		if call, ok := n.(*ast.CallExpr); ok {
			if tv, ok := c.info().Types[call.Fun]; ok && tv.IsType() {
				return true
			}
			if id, ok := call.Fun.(*ast.Ident); ok {
				if _, isB := c.info().ObjectOf(id).(*types.Builtin); isB && (id.Name == "len" || id.Name == "cap" || id.Name == "min" || id.Name == "max") {
					return true
				}
			}
			if fo := calleeFunc(c.info(), call); fo != nil {
				if fo.Pkg() != nil && (fo.Pkg().Path() == "math" || fo.Pkg().Path() == "math/bits") {
					return true
				}
				if ct := c.E.contractOf(fo); ct != nil && ct.Inline {
					return true
				}
			}
			pure = false
			return false
		}
		return true
	})
	return pure
}

func (c *Ctx) evalBinary(x *ast.BinaryExpr) *Val {
	bt := types.Typ[types.Bool]
	switch x.Op {
	case token.LAND:
		l := c.eval(x.X)
		if c.isPure(x.Y) && !c.mayPanic(x.Y) {
			r := c.eval(x.Y)
			return Scalar(And(l.T, r.T), bt)
		}
		if c.branch(l.T) {
			return c.eval(x.Y)
		}
		return Scalar(False, bt)
	case token.LOR:
		l := c.eval(x.X)
		if c.isPure(x.Y) && !c.mayPanic(x.Y) {
			r := c.eval(x.Y)
			return Scalar(Or(l.T, r.T), bt)
		}
		if c.branch(l.T) {
			return Scalar(True, bt)
		}
		return c.eval(x.Y)
	}
	l := c.eval(x.X)
	r := c.eval(x.Y)
	rt := c.typeOf(x)
	lt := c.typeOf(x.X)
	return c.binop(x.Op, l, r, lt, c.typeOf(x.Y), rt)
}

// mayPanic: expression contains indexing, slicing, division, dereference or type assertion
func (c *Ctx) mayPanic(e ast.Expr) bool {
	p := false
	ast.Inspect(e, func(n ast.Node) bool {
		switch y := n.(type) {
		case *ast.IndexExpr, *ast.SliceExpr, *ast.StarExpr, *ast.TypeAssertExpr:
			p = true
		case *ast.BinaryExpr:
			if y.Op == token.QUO || y.Op == token.REM {
				p = true
			}
		case *ast.SelectorExpr:
			// field access through a pointer may be a nil dereference; receivers are assumed non-nil
			if _, isPtr := c.typeOf(y.X).(*types.Pointer); isPtr {
				isRecv := false
				if id, ok := y.X.(*ast.Ident); ok && c.Fr != nil && c.Fr.Sig != nil && c.Fr.Sig.Recv() != nil && id.Name == c.Fr.Sig.Recv().Name() {
					isRecv = true
				}
				if !isRecv {
					p = true
				}
			}
		}
		return !p
	})
	return p
}

func (c *Ctx) binop(op token.Token, l, r *Val, lt, rtT, resT types.Type) *Val {
	bt := types.Typ[types.Bool]
	a, b := l.T, r.T
	switch op {
	case token.EQL, token.NEQ:
		var eq Term
		switch {
		case l.K == VStruct && r.K == VStruct:
			eq = c.structEq(l, r)
		case l.K == VScalar && r.K == VScalar:
			a, b = c.unifySorts(a, b)
			eq = c.scalarEq(a, b)
		case l.K == VSlice || r.K == VSlice:
			// comparison with nil
			sl := l
			if r.K == VSlice {
				sl = r
			}
			eq = Eq(sl.Arr, IntLit(0))
		case l.K == VFunc || r.K == VFunc:
			c.refuse("function comparison")
		default:
			c.refuse("unsupported comparison")
		}
		if op == token.NEQ {
			eq = Not(eq)
		}
		return Scalar(eq, bt)
	case token.LSS, token.LEQ, token.GTR, token.GEQ:
		a, b = c.unifySorts(a, b)
		return Scalar(c.order(op, a, b, lt), bt)
	}
	// arithmetic
	k := classify(resT)
	switch k {
	case TFloat:
		a, b = c.unifySorts(a, b)
		return Scalar(c.floatArith(op, a, b), resT)
	case TInt:
		return Scalar(c.intArith(op, a, b, lt, rtT, resT), resT)
	case TString:
		c.refuse("string operations are outside the subset")
	}
	c.refuse("unsupported binary operator %s on %s", op, resT)
	return nil
}

func (c *Ctx) unifySorts(a, b Term) (Term, Term) {
	if a.Sort == b.Sort {
		return a, b
	}
	if a.Sort == SInt && b.Sort == SReal || a.Sort == SReal && b.Sort == SInt {
		return promote(a, b)
	}
	if a.Sort == SF && (b.Sort == SReal || b.Sort == SInt) {
		return a, c.coerce(b, SF)
	}
	if b.Sort == SF && (a.Sort == SReal || a.Sort == SInt) {
		return c.coerce(a, SF), b
	}
	return a, b
}

func (c *Ctx) scalarEq(a, b Term) Term { return Eq(a, b) }

func (c *Ctx) structEq(l, r *Val) Term {
	var parts []Term
	for k, lv := range l.F {
		rv := r.F[k]
		if rv == nil {
			c.refuse("struct comparison: missing field")
		}
		if lv.K == VStruct {
			parts = append(parts, c.structEq(lv, rv))
		} else if lv.K == VScalar {
			a, b := c.unifySorts(lv.T, rv.T)
			parts = append(parts, Eq(a, b))
		} else {
			c.refuse("struct comparison of non-scalar field")
		}
	}
	return And(parts...)
}

func (c *Ctx) order(op token.Token, a, b Term, t types.Type) Term {
	switch {
	case a.Sort == SInt || a.Sort == SReal:
		switch op {
		case token.LSS:
			return Lt(a, b)
		case token.LEQ:
			return Le(a, b)
		case token.GTR:
			return Gt(a, b)
		default:
			return Ge(a, b)
		}
	case a.Sort.IsBV():
		signed := intRangeOf(t).Signed
		var f string
		switch op {
		case token.LSS:
			f = "bvult"
		case token.LEQ:
			f = "bvule"
		case token.GTR:
			f = "bvugt"
		default:
			f = "bvuge"
		}
		if signed {
			f = "bvs" + f[3:]
			return App(SBool, f, a, b)
		}
		return BVCmp(f, a, b)
	case a.Sort == SFP:
		f := map[token.Token]string{token.LSS: "fp.lt", token.LEQ: "fp.leq", token.GTR: "fp.gt", token.GEQ: "fp.geq"}[op]
		return App(SBool, f, a, b)
	case a.Sort == SF:
		switch op {
		case token.LSS:
			return App(SBool, "xf.lt", a, b)
		case token.LEQ:
			return App(SBool, "xf.le", a, b)
		case token.GTR:
			return App(SBool, "xf.lt", b, a)
		default:
			return App(SBool, "xf.le", b, a)
		}
	}
	c.refuse("ordering on sort %s", a.Sort)
	return Term{}
}

func (c *Ctx) floatArith(op token.Token, a, b Term) Term {
	switch a.Sort {
	case SReal:
		switch op {
		case token.ADD:
			return Add(a, b)
		case token.SUB:
			return Sub(a, b)
		case token.MUL:
			return Mul(a, b)
		case token.QUO:
			c.assert("float-special", "div", Not(Eq(b, RealLitInt(0))), "division by zero yields Inf/NaN, not representable in real mode", nil)
			return RealDiv(a, b)
		}
	case SF:
		f := map[token.Token]string{token.ADD: "xf.add", token.SUB: "xf.sub", token.MUL: "xf.mul", token.QUO: "xf.div"}[op]
		if f != "" {
			return App(SF, f, a, b)
		}
	case SFP:
		f := map[token.Token]string{token.ADD: "fp.add", token.SUB: "fp.sub", token.MUL: "fp.mul", token.QUO: "fp.div"}[op]
		if f != "" {
			return FPBin(f, a, b)
		}
	}
	c.refuse("float operator %s on %s", op, a.Sort)
	return Term{}
}

func (c *Ctx) intArith(op token.Token, a, b Term, lt, rtT, resT types.Type) Term {
	rg := intRangeOf(resT)
	if a.Sort.IsBV() {
		w := a.Sort.BVWidth()
		// shift counts may have another type
		if op == token.SHL || op == token.SHR {
			b = c.toBVWidth(b, rtT, w)
			if op == token.SHL {
				return BVBin("bvshl", a, b)
			}
			if rg.Signed {
				return App(a.Sort, "bvashr", a, b)
			}
			return BVBin("bvlshr", a, b)
		}
		if b.Sort != a.Sort {
			c.refuse("bit-vector width mismatch")
		}
		switch op {
		case token.ADD:
			return BVBin("bvadd", a, b)
		case token.SUB:
			return BVBin("bvsub", a, b)
		case token.MUL:
			return BVBin("bvmul", a, b)
		case token.AND:
			return BVBin("bvand", a, b)
		case token.OR:
			return BVBin("bvor", a, b)
		case token.XOR:
			return BVBin("bvxor", a, b)
		case token.AND_NOT:
			return BVBin("bvand", a, App(a.Sort, "bvnot", b))
		case token.QUO:
			c.assert("divzero", "", Not(Eq(b, BVLit(bigZero, w))), "division by zero", nil)
			if rg.Signed {
				return App(a.Sort, "bvsdiv", a, b)
			}
			return App(a.Sort, "bvudiv", a, b)
		case token.REM:
			c.assert("divzero", "", Not(Eq(b, BVLit(bigZero, w))), "division by zero", nil)
			if rg.Signed {
				return App(a.Sort, "bvsrem", a, b)
			}
			return App(a.Sort, "bvurem", a, b)
		}
		c.refuse("bit-vector operator %s", op)
	}
	if b.Sort.IsBV() {
		// Int shifted by a BV count: only constants
		if b.C == nil {
			c.refuse("shift of Int by symbolic bit-vector")
		}
		b = IntLitBig(b.C)
	}
	switch op {
	case token.ADD:
		return rg.Wrap(Add(a, b))
	case token.SUB:
		return rg.Wrap(Sub(a, b))
	case token.MUL:
		return rg.Wrap(Mul(a, b))
	case token.QUO:
		c.assert("divzero", "", Not(Eq(b, IntLit(0))), "division by zero", nil)
		return rg.Wrap(c.truncDiv(a, b))
	case token.REM:
		c.assert("divzero", "", Not(Eq(b, IntLit(0))), "division by zero", nil)
		return Sub(a, Mul(b, c.truncDiv(a, b)))
	case token.SHL:
		return rg.Wrap(Mul(a, c.pow2(b)))
	case token.SHR:
		return IntDiv(a, c.pow2(b))
	case token.AND:
		return c.bitAnd(a, b)
	case token.OR, token.XOR, token.AND_NOT:
		if a.C != nil && b.C != nil {
			r := new(big.Int)
			switch op {
			case token.OR:
				r.Or(a.C, b.C)
			case token.XOR:
				r.Xor(a.C, b.C)
			default:
				r.AndNot(a.C, b.C)
			}
			return IntLitBig(r)
		}
		c.refuse("bit operator %s on mathematical integers", op)
	}
	c.refuse("integer operator %s", op)
	return Term{}
}

func (c *Ctx) truncDiv(a, b Term) Term {
	if a.C != nil && b.C != nil && b.C.Sign() != 0 {
		return IntLitBig(new(big.Int).Quo(a.C, b.C))
	}
	if b.C != nil && b.C.Sign() > 0 {
		// a / b truncated toward zero
		return Ite(Ge(a, IntLit(0)), IntDiv(a, b), Neg(IntDiv(Neg(a), b)))
	}
	absA := Ite(Ge(a, IntLit(0)), a, Neg(a))
	absB := Ite(Ge(b, IntLit(0)), b, Neg(b))
	q := App(SInt, "div", absA, absB)
	return Ite(Eq(Ge(a, IntLit(0)), Ge(b, IntLit(0))), q, Neg(q))
}

func (c *Ctx) pow2(k Term) Term {
	if k.C != nil {
		if k.C.Sign() < 0 || k.C.Cmp(big.NewInt(200)) > 0 {
			c.refuse("shift count out of range")
		}
		return IntLitBig(new(big.Int).Lsh(big.NewInt(1), uint(k.C.Int64())))
	}
	return App(SInt, "pow2", k)
}

func (c *Ctx) bitAnd(a, b Term) Term {
	if a.C != nil && b.C != nil {
		return IntLitBig(new(big.Int).And(a.C, b.C))
	}
	if a.C != nil {
		a, b = b, a
	}
	if b.C != nil {
		m := b.C
		one := big.NewInt(1)
		if m.Sign() >= 0 {
			p := new(big.Int).Add(m, one)
			if new(big.Int).And(p, m).Sign() == 0 { // m = 2^k - 1
				return IntMod(a, IntLitBig(p))
			}
		} else {
			p := new(big.Int).Neg(m) // m = -2^k
			if new(big.Int).And(p, new(big.Int).Sub(p, one)).Sign() == 0 {
				return Sub(a, IntMod(a, IntLitBig(p)))
			}
		}
	}
	return App(SInt, "bandI", a, b)
}

// toBVWidth converts an integer term of Go type t to a bit-vector of width w.
func (c *Ctx) toBVWidth(x Term, t types.Type, w int) Term {
	if x.Sort == SInt {
		if x.C == nil {
			c.refuse("symbolic Int to bit-vector conversion")
		}
		return BVLit(x.C, w)
	}
	xw := x.Sort.BVWidth()
	switch {
	case xw == w:
		return x
	case xw > w:
		return BVExtract(w-1, 0, x)
	default:
		if intRangeOf(t).Signed {
			return BVSignExt(w-xw, x)
		}
		return BVZeroExt(w-xw, x)
	}
}

func (c *Ctx) evalUnary(x *ast.UnaryExpr) *Val {
	switch x.Op {
	case token.AND:
		return c.addressOf(x.X)
	case token.NOT:
		v := c.eval(x.X)
		return Scalar(Not(v.T), v.Typ)
	case token.SUB:
		v := c.eval(x.X)
		t := c.typeOf(x)
		switch v.T.Sort {
		case SInt:
			return Scalar(intRangeOf(t).Wrap(Neg(v.T)), t)
		case SReal:
			return Scalar(Neg(v.T), t)
		case SF:
			return Scalar(App(SF, "xf.neg", v.T), t)
		case SFP:
			return Scalar(App(SFP, "fp.neg", v.T), t)
		default:
			if v.T.Sort.IsBV() {
				return Scalar(App(v.T.Sort, "bvneg", v.T), t)
			}
		}
	case token.ADD:
		return c.eval(x.X)
	case token.XOR:
		v := c.eval(x.X)
		t := c.typeOf(x)
		if v.T.Sort.IsBV() {
			return Scalar(App(v.T.Sort, "bvnot", v.T), t)
		}
		if v.T.Sort == SInt {
			rg := intRangeOf(t)
			if rg.Signed {
				return Scalar(Sub(Neg(v.T), IntLit(1)), t)
			}
			return Scalar(Sub(IntLitBig(rg.Max()), v.T), t)
		}
	}
	c.refuse("unsupported unary operator %s", x.Op)
	return nil
}

// addressOf evaluates &e.
func (c *Ctx) addressOf(e ast.Expr) *Val {
	pt := types.NewPointer(c.typeOf(e))
	switch y := e.(type) {
	case *ast.ParenExpr:
		return c.addressOf(y.X)
	case *ast.CompositeLit:
		return c.evalComposite(y, true)
	case *ast.Ident:
		o, _ := c.info().ObjectOf(y).(*types.Var)
		if o == nil {
			c.refuse("address of non-variable")
		}
		if cell, ok := c.boxedCell(o); ok {
			return Scalar(cell, pt)
		}
		c.refuse("address of variable %s that was not boxed", y.Name)
	case *ast.IndexExpr:
		base := c.eval(y.X)
		if base.K != VSlice {
			c.refuse("address of non-slice element")
		}
		i := c.eval(y.Index)
		c.assert("bounds", "", And(Le(IntLit(0), i.T), Lt(i.T, base.Len)), "index in range: "+types.ExprString(y), nil)
		return &Val{K: VPtrElem, Arr: base.Arr, Off: Add(base.Off, i.T), Typ: pt}
	case *ast.SelectorExpr:
		// &x.f where f is an embedded struct: same object
		sel := c.info().Selections[y]
		if sel != nil && sel.Kind() == types.FieldVal {
			if fv, ok := sel.Obj().(*types.Var); ok && fv.Embedded() {
				if _, isStruct := fv.Type().Underlying().(*types.Struct); isStruct {
					base := c.eval(y.X)
					if base.K == VScalar {
						return Scalar(base.T, pt)
					}
				}
			}
		}
	}
	c.refuse("unsupported address-of expression %s", types.ExprString(e))
	return nil
}

// ---------------------------------------------------------------- selectors, indexing, slicing

// fieldPath walks a selection index path from a value (pointer or struct) to the field.
// It returns the reference and owner struct of the final field, or the struct value holding it.
func (c *Ctx) walkToField(heap map[string]Term, base *Val, baseT types.Type, index []int) (ref Term, owner *types.Named, fld *types.Var, sv *Val) {
	cur := base
	curT := baseT
	for step, idx := range index {
		if p, ok := curT.Underlying().(*types.Pointer); ok {
			// pointer to struct: cur.T is the reference
			curT = p.Elem()
			if heap == nil && !c.noNilChecks {
				c.assert("nil", "", Not(Eq(cur.T, IntLit(0))), "nil dereference", nil)
			}
			ref = cur.T
			sv = nil
		} else if cur.K == VScalar && sv == nil && step > 0 {
			// embedded struct by value inside a heap object: same ref
		}
		n, _ := curT.(*types.Named)
		st, _ := curT.Underlying().(*types.Struct)
		if st == nil {
			c.refuse("selection through non-struct %s", curT)
		}
		f := st.Field(idx)
		last := step == len(index)-1
		if cur.K == VStruct {
			// struct by value
			if last {
				return Term{}, n, f, cur
			}
			cur = cur.F[f.Name()]
			curT = f.Type()
			continue
		}
		// object in heap with reference ref
		if last {
			return ref, n, f, nil
		}
		if _, isStruct := f.Type().Underlying().(*types.Struct); isStruct && f.Embedded() {
			// embedded by value: stay on the same object
			cur = Scalar(ref, types.NewPointer(f.Type()))
			curT = f.Type()
			// mark so that the next iteration treats ref as the object of curT
			continue
		}
		if n == nil {
			c.refuse("field of unnamed struct")
		}
		cur = c.loadField(heap, ref, n, f)
		curT = f.Type()
	}
	c.refuse("empty selection path")
	return
}

func (c *Ctx) evalSelector(x *ast.SelectorExpr) *Val {
	// package-qualified identifier
	if id, ok := x.X.(*ast.Ident); ok {
		if _, isPkg := c.info().ObjectOf(id).(*types.PkgName); isPkg {
			switch o := c.info().ObjectOf(x.Sel).(type) {
			case *types.Const:
				return c.constVal(o.Val(), o.Type())
			case *types.Var:
				return c.readGlobal(o)
			case *types.Func:
				return &Val{K: VFunc, Typ: o.Type(), Fn: &FuncVal{Decl: o, Sig: o.Type().(*types.Signature)}}
			}
			c.refuse("unsupported package member %s", x.Sel.Name)
		}
	}
	sel := c.info().Selections[x]
	if sel == nil {
		c.refuse("unresolved selector %s", x.Sel.Name)
	}
	switch sel.Kind() {
	case types.FieldVal:
		base := c.eval(x.X)
		return c.selectField(nil, base, c.typeOf(x.X), sel.Index())
	case types.MethodVal:
		c.refuse("method value %s is outside the subset", x.Sel.Name)
	}
	c.refuse("unsupported selection")
	return nil
}

func (c *Ctx) selectField(heap map[string]Term, base *Val, baseT types.Type, index []int) *Val {
	ref, owner, f, sv := c.walkToField(heap, base, baseT, index)
	if sv != nil {
		v := sv.F[f.Name()]
		if v == nil {
			c.refuse("missing field %s in struct value", f.Name())
		}
		return v
	}
	if _, isStruct := f.Type().Underlying().(*types.Struct); isStruct && f.Embedded() {
		return c.loadStructValue(heap, ref, f.Type())
	}
	return c.loadField(heap, ref, owner, f)
}

func (c *Ctx) evalIndex(x *ast.IndexExpr, commaOk bool) *Val {
	base := c.eval(x.X)
	bt := c.typeOf(x.X)
	switch u := bt.Underlying().(type) {
	case *types.Slice:
		i := c.eval(x.Index)
		c.assert("bounds", "", And(Le(IntLit(0), i.T), Lt(i.T, base.Len)), "index in range: "+types.ExprString(x), nil)
		return c.loadElem(nil, base.Arr, Add(base.Off, i.T), u.Elem())
	case *types.Array:
		i := c.eval(x.Index)
		if i.T.C == nil {
			c.assert("bounds", "", And(Le(IntLit(0), i.T), Lt(i.T, IntLit(u.Len()))), "index in range: "+types.ExprString(x), nil)
		} else if i.T.C.Sign() < 0 || i.T.C.Cmp(big.NewInt(u.Len())) >= 0 {
			c.assert("bounds", "", False, "constant index out of range", nil)
		}
		return Scalar(Select(base.T, i.T), u.Elem())
	case *types.Map:
		k := c.eval(x.Index)
		dom, val, _ := c.mapArrays(nil, u)
		in := Select(Select(dom, base.T), c.mapKey(k.T))
		v := Select(Select(val, base.T), c.mapKey(k.T))
		z := c.zeroTerm(v.Sort)
		r := Scalar(Ite(in, v, z), u.Elem())
		if commaOk {
			return &Val{K: VTuple, Elems: []*Val{r, Scalar(in, types.Typ[types.Bool])}}
		}
		return r
	case *types.Pointer:
		c.refuse("indexing through pointer to array")
	}
	c.refuse("unsupported index expression on %s", bt)
	return nil
}

func (c *Ctx) mapKey(k Term) Term {
	if k.Sort != SInt {
		c.refuse("map keys other than integers are outside the subset")
	}
	return k
}

// mapArrays returns the heap arrays (dom, val, len) for a map type.
func (c *Ctx) mapArrays(heap map[string]Term, m *types.Map) (dom, val, ln Term) {
	ints, floats := c.Fr.Ints, c.Fr.Floats
	vs := scalarSort(m.Elem(), ints, floats)
	name := "map$" + typeKey(m.Key()) + "$" + typeKey(m.Elem()) + modeSuffix(m.Elem(), ints, floats)
	get := func(n string, s Sort) Term {
		if heap == nil {
			return c.heapArr(n, s)
		}
		return c.heapArrIn(heap, n, s)
	}
	dom = get(name+"$dom", nestedArr(2, SBool))
	val = get(name+"$val", nestedArr(2, vs))
	ln = get(name+"$len", nestedArr(1, SInt))
	return
}

func mapHeapNames(c *Ctx, m *types.Map) (string, string, string) {
	ints, floats := c.Fr.Ints, c.Fr.Floats
	name := "map$" + typeKey(m.Key()) + "$" + typeKey(m.Elem()) + modeSuffix(m.Elem(), ints, floats)
	return name + "$dom", name + "$val", name + "$len"
}

func (c *Ctx) evalSliceExpr(x *ast.SliceExpr) *Val {
	base := c.eval(x.X)
	if base.K != VSlice {
		c.refuse("slicing of non-slice")
	}
	if x.Slice3 {
		c.refuse("3-index slices are outside the subset")
	}
	lo := IntLit(0)
	hi := base.Len
	if x.Low != nil {
		lo = c.eval(x.Low).T
	}
	if x.High != nil {
		hi = c.eval(x.High).T
	}
	// stricter than Go (hi <= cap): re-slicing beyond len is outside the subset, see DESIGN 2.2.2
	c.assert("bounds", "slice", And(Le(IntLit(0), lo), Le(lo, hi), Le(hi, base.Len)), "slice bounds: "+types.ExprString(x), nil)
	return &Val{K: VSlice, Typ: base.Typ, Arr: base.Arr, Off: Add(base.Off, lo), Len: Sub(hi, lo), Cap: Sub(base.Cap, lo)}
}

func (c *Ctx) evalComposite(x *ast.CompositeLit, addr bool) *Val {
	t := c.typeOf(x)
	switch u := t.Underlying().(type) {
	case *types.Struct:
		v := &Val{K: VStruct, Typ: t, F: map[string]*Val{}}
		for i, el := range x.Elts {
			if kv, ok := el.(*ast.KeyValueExpr); ok {
				name := kv.Key.(*ast.Ident).Name
				v.F[name] = c.evalConv(kv.Value, fieldType(u, name))
			} else {
				v.F[u.Field(i).Name()] = c.evalConv(el, u.Field(i).Type())
			}
		}
		n, _ := t.(*types.Named)
		ints, floats := c.Fr.Ints, c.Fr.Floats
		if n != nil {
			ints, floats = c.E.pkgModes(n.Obj().Pkg())
		}
		for i := 0; i < u.NumFields(); i++ {
			f := u.Field(i)
			if v.F[f.Name()] == nil {
				v.F[f.Name()] = c.zeroVal(f.Type(), ints, floats)
			}
		}
		if !addr {
			return v
		}
		if n == nil {
			c.refuse("address of unnamed struct literal")
		}
		ref := c.alloc("new$" + n.Obj().Name())
		c.assume(Eq(App(SInt, "dyntype", ref), IntLit(int64(c.E.typeTag(namedKey(n))))))
		c.storeStructValue(ref, t, v)
		return Scalar(ref, types.NewPointer(t))
	case *types.Slice:
		if addr {
			c.refuse("address of slice literal")
		}
		n := int64(len(x.Elts))
		id := c.alloc("lit")
		sl := &Val{K: VSlice, Typ: t, Arr: id, Off: IntLit(0), Len: IntLit(n), Cap: IntLit(n)}
		for i, el := range x.Elts {
			if _, ok := el.(*ast.KeyValueExpr); ok {
				c.refuse("keyed slice literal")
			}
			c.storeElem(id, IntLit(int64(i)), u.Elem(), c.evalConv(el, u.Elem()))
		}
		return sl
	}
	c.refuse("unsupported composite literal of type %s", t)
	return nil
}

func fieldType(st *types.Struct, name string) types.Type {
	for i := 0; i < st.NumFields(); i++ {
		if st.Field(i).Name() == name {
			return st.Field(i).Type()
		}
	}
	return nil
}

// evalConv evaluates e for assignment to a location of type target (handles untyped nil, interface boxing).
func (c *Ctx) evalConv(e ast.Expr, target types.Type) *Val {
	v := c.eval(e)
	return c.assignConv(v, c.typeOf(e), target)
}

// assignConv converts a value of static type from for storage into type to.
func (c *Ctx) assignConv(v *Val, from, to types.Type) *Val {
	if to == nil || v == nil {
		return v
	}
	if b, ok := from.Underlying().(*types.Basic); ok && b.Kind() == types.UntypedNil {
		return c.zeroVal(to, c.Fr.Ints, c.Fr.Floats)
	}
	if _, isIface := to.Underlying().(*types.Interface); isIface {
		if _, fromIface := from.Underlying().(*types.Interface); !fromIface {
			// boxing a concrete value into an interface: only pointers to structs (and static error objects)
			if v.K == VScalar && classify(from) == TRef {
				if n, _ := structOf(from); n != nil {
					c.assume(Implies(Not(Eq(v.T, IntLit(0))), Eq(App(SInt, "dyntype", v.T), IntLit(int64(c.E.typeTag(namedKey(n)))))))
				}
				return Scalar(v.T, to)
			}
			if v.K == VFunc {
				return v
			}
			c.refuse("boxing of %s into interface is outside the subset", from)
		}
		return Scalar(v.T, to)
	}
	if v.K == VScalar && v.Typ != nil {
		// keep sort consistent with the target representation
		want := c.sortFor(to)
		if v.T.Sort != want && (classify(to) == TFloat || classify(to) == TInt) {
			if v.T.Sort == SInt && (want == SReal || want == SF) || v.T.Sort == SReal && want == SF {
				return Scalar(c.coerce(v.T, want), to)
			}
		}
		return Scalar(v.T, to)
	}
	return v
}

// typeTest: dynamic type of interface value v is exactly the pointer-to-struct type tt.
func (c *Ctx) typeTest(v *Val, tt types.Type) Term {
	n, _ := structOf(tt)
	if n == nil {
		c.refuse("type assertion to %s is outside the subset", tt)
	}
	return And(Not(Eq(v.T, IntLit(0))), Eq(App(SInt, "dyntype", v.T), IntLit(int64(c.E.typeTag(namedKey(n))))))
}

func (c *Ctx) castIface(v *Val, tt types.Type) *Val { return Scalar(v.T, tt) }
