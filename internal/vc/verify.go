package vc

// Per-function verification driver: path exploration, entry setup, exit checks; lemma proofs.

import (
	"fmt"
	"go/ast"
	"go/token"
	"go/types"
	"sort"
	"strings"
)

type FuncResult struct {
	Name     string
	Pkg      string
	Trusted  string
	Bounded  string
	Paths    int
	Obls     []*Obligation
	Refused  string
	Serves   []string
	Inline   bool
}

func (e *Engine) newCtx(pi *PkgInfo, name string) *Ctx {
	return &Ctx{E: e, Pkg: pi, FuncName: name, declSet: map[string]bool{}, oblSeen: map[string]bool{},
		loopOrd: map[ast.Node]int{}, feOrd: map[ast.Node]int{}, callOrd: map[string]int{}, wfSeen: map[string]bool{}}
}

// VerifyFunc generates all obligations of one function under contract.
func (e *Engine) VerifyFunc(pi *PkgInfo, fo *types.Func, ct *Contract) *FuncResult {
	res := &FuncResult{Name: pi.Name + "." + ct.Name, Pkg: pi.Name, Serves: ct.Serves, Trusted: ct.Trusted, Bounded: ct.Bounded, Inline: ct.Inline}
	fd := pi.FuncDecls[fo]
	if ct.Trusted != "" || ct.Inline {
		return res
	}
	if fd == nil || fd.Body == nil {
		res.Refused = "no body"
		return res
	}
	pending := [][]bool{{}}
	seen := map[string]bool{}
	var all []*Obligation
	oblSeen := map[string]bool{}
	for len(pending) > 0 {
		tr := pending[len(pending)-1]
		pending = pending[:len(pending)-1]
		c := e.newCtx(pi, res.Name)
		c.oblSeen = oblSeen
		c.trace = append([]bool{}, tr...)
		c.serves = ct.Serves
		refused := c.runPath(pi, fo, fd, ct)
		if refused != "" {
			res.Refused = refused
			return res
		}
		res.Paths++
		if res.Paths > 4000 {
			res.Refused = "path explosion (more than 4000 paths)"
			return res
		}
		all = append(all, c.obls...)
		for _, p := range c.pending {
			k := fmt.Sprint(p)
			if !seen[k] {
				seen[k] = true
				pending = append(pending, p)
			}
		}
	}
	res.Obls = all
	return res
}

func (c *Ctx) runPath(pi *PkgInfo, fo *types.Func, fd *ast.FuncDecl, ct *Contract) (refused string) {
	defer func() {
		if r := recover(); r != nil {
			switch x := r.(type) {
			case pathEnd:
				return
			case refusal:
				refused = x.msg
				return
			}
			panic(r)
		}
	}()
	c.St = &State{Heap: map[string]Term{}}
	top0 := c.fresh("top", SInt)
	c.St.Top = top0
	c.assume(Lt(IntLit(0), top0))
	sig := fo.Type().(*types.Signature)
	info := pi.P.TypesInfo
	fr := &Frame{Fn: fo, Pkg: pi, Contract: ct, Vars: map[types.Object]*Val{}, Boxed: map[types.Object]Term{},
		ByName: map[string][]types.Object{}, Ghost: map[string]*Val{}, Entry: map[types.Object]*Val{},
		Ints: pi.Spec.Ints, Floats: pi.Spec.Floats, Sig: sig}
	if ct.Ints != "" {
		fr.Ints = ct.Ints
	}
	if ct.Floats != "" {
		fr.Floats = ct.Floats
	}
	c.Fr = fr
	fr.boxSet = boxedVars(info, fd.Body)
	c.ensureOrdinals(fd.Body)
	c.curPos = fd.Pos()
	// receiver and parameters
	bind := func(o *types.Var, v *Val) {
		fr.Entry[o] = v
		c.declareLocal(o, v)
	}
	if fd.Recv != nil && len(fd.Recv.List) == 1 && len(fd.Recv.List[0].Names) == 1 {
		if o, ok := info.Defs[fd.Recv.List[0].Names[0]].(*types.Var); ok && o != nil {
			v := c.freshVal(o.Name(), o.Type(), fr.Ints, fr.Floats)
			if classify(o.Type()) == TRef || classify(o.Type()) == TCell {
				c.assume(Lt(IntLit(0), v.T)) // receivers are non-nil (A-DOM)
			}
			// a non-nil *T whose type no other struct embeds is a whole object: its dynamic type is *T
			if pt, ok := o.Type().(*types.Pointer); ok {
				if nt, ok := pt.Elem().(*types.Named); ok && len(c.E.embedders(nt)) == 0 {
					c.assume(Eq(App(SInt, "dyntype", v.T), IntLit(int64(c.E.typeTag(namedKey(nt))))))
				}
			}
			bind(o, v)
		}
	}
	for _, f := range fd.Type.Params.List {
		for _, n := range f.Names {
			if o, ok := info.Defs[n].(*types.Var); ok && o != nil {
				pv := c.freshVal(o.Name(), o.Type(), fr.Ints, fr.Floats)
				if pv.K == VSlice {
					// A-OFF0: a slice argument is taken to start at offset 0 of its backing array (its elements
					// and length are what the callee can observe; aliasing with other arguments is excluded)
					c.assume(Eq(pv.Off, IntLit(0)))
					pv.Off = IntLit(0)
				}
				bind(o, pv)
			}
		}
	}
	nres := sig.Results().Len()
	fr.ResultVars = make([]types.Object, nres)
	if fd.Type.Results != nil {
		j := 0
		for _, f := range fd.Type.Results.List {
			for _, n := range f.Names {
				if o, ok := info.Defs[n].(*types.Var); ok && o != nil {
					fr.ResultVars[j] = o
					c.declareLocal(o, c.zeroVal(o.Type(), fr.Ints, fr.Floats))
				}
				j++
			}
			if len(f.Names) == 0 {
				j++
			}
		}
	}
	// ghost variables
	for _, g := range ct.GhostVars {
		if g.Init != nil {
			fr.Ghost[g.Name] = c.evalSpec(g.Init)
		} else {
			v, _ := c.bindVar(SBinder{g.Name, g.Type}, "g")
			for _, t := range valTerms(v) {
				c.declare(t.S, t.Sort)
			}
			fr.Ghost[g.Name] = v
		}
	}
	fr.OldHeap = c.St.cloneHeap()
	fr.OldTop = c.St.Top
	// preconditions
	c.assumeAxioms(ct.Uses)
	for _, r := range ct.Requires {
		c.assume(c.evalSpecBool(r.E))
	}
	c.assumeGlobalInvariants(pi)
	// modifies set, evaluated in the entry state
	entries := c.evalModEntries(ct.Modifies)
	fr.ModSet = inModPred(entries)
	fr.modEntries = entries
	// entry snapshot must include anything materialised while evaluating the precondition
	fr.OldHeap = c.St.cloneHeap()
	c.vacuity("requires")
	fl := c.execBlock(fd.Body.List)
	if fl != flowReturn {
		if nres > 0 {
			res := make([]*Val, nres)
			for k := 0; k < nres; k++ {
				if fr.ResultVars[k] != nil {
					res[k] = c.readVar(fr.ResultVars[k].(*types.Var))
				} else {
					c.refuse("missing return")
				}
			}
			fr.Results = res
		}
	}
	c.curPos = fd.End()
	c.checkExit(ct)
	return ""
}

func valTerms(v *Val) []Term {
	switch v.K {
	case VSlice:
		return []Term{v.Arr, v.Off, v.Len, v.Cap}
	case VScalar, VLogic, VArray:
		return []Term{v.T}
	}
	return nil
}

// vacuity records a satisfiability check of the current path (must be sat).
func (c *Ctx) vacuity(what string) {
	if c.pathID.Len() > 0 {
		return
	}
	name := c.FuncName + "/vacuity(" + what + ")"
	if c.oblSeen[name] {
		return
	}
	c.oblSeen[name] = true
	var hyps []Term
	for _, h := range c.St.Path {
		// library axioms are not what the vacuity check is about; quantified hypotheses are left out
		// (a satisfiability check with quantifiers rarely terminates): the quantifier-free part must be satisfiable
		if !c.axiomSet[h.S] && !strings.Contains(h.S, "(forall ") && !strings.Contains(h.S, "(exists ") {
			hyps = append(hyps, h)
		}
	}
	o := &Obligation{Name: name, Base: name, Func: c.FuncName, Kind: "vacuity", Hyps: hyps,
		Goal: False, Src: "precondition is satisfiable (quantifier-free part)", Pos: c.E.relPos(c.curPos), Vacuity: true, Decls: c.decls, Serves: c.serves}
	c.obls = append(c.obls, o)
}

// reach records a cover obligation: the path arriving at this return is satisfiable (quantifier-free part). The
// check driver requires at least one feasible path per return statement; a return no path reaches would make
// every postcondition proved "at" it vacuous.
func (c *Ctx) reach() {
	base := fmt.Sprintf("%s/reach(return@%s)", c.FuncName, c.E.relPos(c.curPos))
	var hyps []Term
	for _, h := range c.St.Path {
		if !c.axiomSet[h.S] && !strings.Contains(h.S, "(forall ") && !strings.Contains(h.S, "(exists ") {
			hyps = append(hyps, h)
		}
	}
	for _, d := range c.defs {
		if !strings.Contains(d.S, "(forall ") && !strings.Contains(d.S, "(exists ") {
			hyps = append(hyps, d)
		}
	}
	o := &Obligation{Name: base + "@" + c.pathID.String(), Base: base, Func: c.FuncName, Kind: "reach", Hyps: hyps, PathID: c.pathID.String(),
		Goal: False, Src: "some path reaching this return is satisfiable (quantifier-free part)", Pos: c.E.relPos(c.curPos), Vacuity: true, Decls: c.decls, Serves: c.serves}
	c.obls = append(c.obls, o)
}

func (c *Ctx) checkExit(ct *Contract) {
	c.reach()
	fr := c.Fr
	fr.InEnsures = true
	defer func() { fr.InEnsures = false }()
	for i, e := range ct.Ensures {
		label := e.Label
		if label == "" {
			label = fmt.Sprintf("%d", i+1)
		}
		if e.Assumed != "" {
			c.E.noteAssumedClause(c.FuncName+"/ensures("+label+")", e.Assumed)
			continue
		}
		c.useLemmas(e.Using)
		t := c.evalSpecBool(e.E)
		c.assert("ensures", label, t, e.Src, e.Serves)
	}
	// frame: everything outside the modifies set and allocated at entry is unchanged
	names := make([]string, 0, len(c.St.Heap))
	for n := range c.St.Heap {
		names = append(names, n)
	}
	sort.Strings(names)
	for _, n := range names {
		if strings.HasPrefix(n, "glob$") {
			cur := c.St.Heap[n]
			entry := c.heapArrIn(fr.OldHeap, n, cur.Sort)
			if cur.S != entry.S {
				c.assert("frame", n, StructEq(cur, entry), "package-level variable unchanged", nil)
			}
			continue
		}
		cur := c.St.Heap[n]
		entry := c.heapArrIn(fr.OldHeap, n, cur.Sort)
		if cur.S == entry.S {
			continue
		}
		r := c.fresh("fr", SInt)
		in := fr.ModSet(r, n)
		goal := Implies(And(Lt(IntLit(0), r), Lt(r, fr.OldTop), Not(in)), StructEq(Select(cur, r), Select(entry, r)))
		c.assert("frame", n, goal, "only the modifies set changes: "+strings.Join(ct.ModSrc, ", "), nil)
	}
	if c.St.Epoch != 0 {
		// some heap arrays were havocked without being materialised; they are covered by assumeFrame on first use
	}
}

// ---------------------------------------------------------------- axioms, global invariants

func (c *Ctx) findLemma(name string) (*PkgInfo, *Lemma) {
	if lm := c.Fr.Pkg.Spec.Lemmas[name]; lm != nil {
		return c.Fr.Pkg, lm
	}
	var keys []string
	for k := range c.E.Pkgs {
		keys = append(keys, k)
	}
	sort.Strings(keys)
	for _, k := range keys {
		if lm := c.E.Pkgs[k].Spec.Lemmas[name]; lm != nil {
			return c.E.Pkgs[k], lm
		}
	}
	return nil, nil
}

// assumeAxioms adds the named lemmas/axioms as universally quantified hypotheses.
func (c *Ctx) assumeAxioms(names []string) {
	for _, n := range names {
		pi, lm := c.findLemma(n)
		if lm == nil {
			c.refuse("uses: unknown lemma %s", n)
		}
		f := c.lemmaFormula(pi, lm)
		if c.axiomSet == nil {
			c.axiomSet = map[string]bool{}
		}
		c.axiomSet[f.S] = true
		c.assume(f)
		c.E.LemmaUse[pi.Name+"."+lm.Name]++
	}
}

func (c *Ctx) lemmaFormula(pi *PkgInfo, lm *Lemma) Term {
	fr := &Frame{Pkg: pi, Vars: map[types.Object]*Val{}, Boxed: map[types.Object]Term{}, ByName: map[string][]types.Object{},
		Ghost: map[string]*Val{}, Ints: pi.Spec.Ints, Floats: pi.Spec.Floats}
	savedFr, savedBound := c.Fr, c.bound
	c.Fr = fr
	defer func() { c.Fr, c.bound = savedFr, savedBound }()
	env := &specEnv{vars: map[string]*Val{}}
	var vars []Term
	for _, p := range lm.Params {
		v, ts := c.bindVar(p, "a")
		env.vars[p.Name] = v
		vars = append(vars, ts...)
	}
	c.bound = env
	n0 := len(c.St.Path)
	var pre, post []Term
	for _, r := range lm.Requires {
		pre = append(pre, c.evalSpecBool(r.E))
	}
	for _, e := range lm.Ensures {
		post = append(post, c.evalSpecBool(e.E))
	}
	var pats [][]Term
	for _, p := range lm.Pats {
		var pt []Term
		for _, pe := range p {
			pt = append(pt, c.evalSpec(pe).T)
		}
		pats = append(pats, pt)
	}
	c.St.Path = filterPath(c.St.Path, n0, vars)
	return Forall(vars, Implies(And(pre...), And(post...)), pats...)
}

func (c *Ctx) assumeGlobalInvariants(pi *PkgInfo) {
	for _, gi := range pi.Spec.GlobalInvs {
		c.assume(c.evalSpecBool(gi.E))
	}
}

// ProveLemma generates the obligation for a lemma (optionally by induction on an integer parameter).
func (e *Engine) ProveLemma(pi *PkgInfo, lm *Lemma) *FuncResult {
	res := &FuncResult{Name: pi.Name + ".lemma." + lm.Name, Pkg: pi.Name}
	if lm.Axiom {
		res.Trusted = "axiom"
		if lm.Definition {
			res.Trusted = "definition of a spec function (conservative)"
		}
		return res
	}
	c := e.newCtx(pi, res.Name)
	func() {
		defer func() {
			if r := recover(); r != nil {
				switch x := r.(type) {
				case pathEnd:
					return
				case refusal:
					res.Refused = x.msg
					return
				}
				panic(r)
			}
		}()
		c.St = &State{Heap: map[string]Term{}}
		c.St.Top = c.fresh("top", SInt)
		fr := &Frame{Pkg: pi, Vars: map[types.Object]*Val{}, Boxed: map[types.Object]Term{}, ByName: map[string][]types.Object{},
			Ghost: map[string]*Val{}, Ints: pi.Spec.Ints, Floats: pi.Spec.Floats}
		c.Fr = fr
		env := &specEnv{vars: map[string]*Val{}}
		for _, p := range lm.Params {
			v, ts := c.bindVar(p, "l")
			for _, t := range ts {
				c.declare(t.S, t.Sort)
			}
			env.vars[p.Name] = v
		}
		c.bound = env
		if lm.TwoState {
			// an arbitrary earlier heap and an arbitrary current heap: evaluate once to materialise the arrays
			// the lemma reads, snapshot them as the old state, then forget them all
			n0 := len(c.St.Path)
			c.Fr.OldHeap = c.St.cloneHeap()
			c.Fr.OldTop = c.St.Top
			func() {
				defer func() { recover() }()
				for _, r := range lm.Requires {
					c.evalSpecBool(r.E)
				}
				for _, q := range lm.Ensures {
					c.evalSpecBool(q.E)
				}
			}()
			c.St.Path = c.St.Path[:n0]
			c.defs = nil
			c.lambdaCache = nil
			c.wfSeen = map[string]bool{}
			c.Fr.OldHeap = c.St.cloneHeap()
			c.Fr.OldTop = c.St.Top
			names := make([]string, 0, len(c.St.Heap))
			for n := range c.St.Heap {
				names = append(names, n)
			}
			sort.Strings(names)
			nt := c.fresh("top", SInt)
			c.assume(Le(c.St.Top, nt))
			c.St.Top = nt
			for _, n := range names {
				cur := c.St.Heap[n]
				c.St.Heap[n] = c.fresh("H$"+n, cur.Sort)
			}
		}
		c.assumeAxioms(lm.Uses)
		for _, r := range lm.Requires {
			c.assume(c.evalSpecBool(r.E))
		}
		if lm.Induction != "" {
			iv := env.vars[lm.Induction]
			if iv == nil {
				c.refuse("induction variable %s is not a parameter", lm.Induction)
			}
			base := IntLit(0)
			if lm.IndBase != "" {
				be, err := ParseSpec(lm.IndBase)
				if err != nil {
					c.refuse("bad induction base: %v", err)
				}
				base = c.evalSpec(be).T
			}
			// induction hypothesis at x-1
			env2 := &specEnv{vars: map[string]*Val{lm.Induction: Scalar(Sub(iv.T, IntLit(1)), iv.Typ)}, up: env}
			c.bound = env2
			var pre, post []Term
			for _, r := range lm.Requires {
				pre = append(pre, c.evalSpecBool(r.E))
			}
			for _, q := range lm.Ensures {
				post = append(post, c.evalSpecBool(q.E))
			}
			c.bound = env
			c.assume(Implies(Gt(iv.T, base), Implies(And(pre...), And(post...))))
		}
		for i, q := range lm.Ensures {
			label := q.Label
			if label == "" {
				label = fmt.Sprintf("%d", i+1)
			}
			c.useLemmas(q.Using)
			c.assert("lemma", label, c.evalSpecBool(q.E), q.Src, nil)
		}
	}()
	res.Obls = c.obls
	res.Paths = 1
	return res
}

// VerifyRefinement checks that the contract of an implementation implies the contract of the interface
// method it implements: a synthetic body `return this.(*T).M(args...)` is verified against the interface contract.
func (e *Engine) VerifyRefinement(pi *PkgInfo, ifaceFn *types.Func, ict *Contract, implT *types.Named, implFn *types.Func, implCt *Contract) *FuncResult {
	name := fmt.Sprintf("%s.%s/refines(%s)", pi.Name, implCt.Name, ict.Name)
	if !strings.HasPrefix(implCt.Name, implT.Obj().Name()+".") {
		name = fmt.Sprintf("%s.%s[%s]/refines(%s)", pi.Name, implT.Obj().Name(), implCt.Name, ict.Name)
	}
	res := &FuncResult{Name: name, Pkg: pi.Name, Serves: uniq(append(append([]string{}, ict.Serves...), implCt.Serves...))}
	c := e.newCtx(pi, name)
	c.serves = res.Serves
	func() {
		defer func() {
			if r := recover(); r != nil {
				switch x := r.(type) {
				case pathEnd:
					return
				case refusal:
					res.Refused = x.msg
					return
				}
				panic(r)
			}
		}()
		c.St = &State{Heap: map[string]Term{}}
		top0 := c.fresh("top", SInt)
		c.St.Top = top0
		c.assume(Lt(IntLit(0), top0))
		sig := ifaceFn.Type().(*types.Signature)
		// receiver of the dynamic type under consideration
		recvT := types.NewPointer(implT)
		seed := &Frame{Pkg: pi, Vars: map[types.Object]*Val{}, Boxed: map[types.Object]Term{}, ByName: map[string][]types.Object{},
			Ghost: map[string]*Val{}, Ints: pi.Spec.Ints, Floats: pi.Spec.Floats}
		c.Fr = seed
		recv := c.freshVal("this", recvT, seed.Ints, seed.Floats)
		c.assume(Lt(IntLit(0), recv.T))
		c.assume(Eq(App(SInt, "dyntype", recv.T), IntLit(int64(e.typeTag(namedKey(implT))))))
		var args []*Val
		for i := 0; i < sig.Params().Len(); i++ {
			p := sig.Params().At(i)
			args = append(args, c.freshVal(p.Name(), p.Type(), seed.Ints, seed.Floats))
		}
		ifaceRecv := Scalar(recv.T, sig.Recv().Type())
		fr := c.calleeFrame(pi, ifaceFn, ict, ifaceRecv, args)
		fr.Caller = nil
		c.Fr = fr
		c.curPos = e.posOfContract(ict)
		fr.OldHeap = c.St.cloneHeap()
		fr.OldTop = c.St.Top
		for _, r := range ict.Requires {
			c.assume(c.evalSpecBool(r.E))
		}
		entries := c.evalModEntries(ict.Modifies)
		fr.ModSet = inModPred(entries)
		fr.OldHeap = c.St.cloneHeap()
		c.vacuity("requires")
		if len(ict.Callbacks) > 0 || len(implCt.Callbacks) > 0 {
			c.refineCallbacks(fr, ict, implCt, implFn, recv, args)
			return
		}
		out := c.callContract(pi, implFn, implCt, Scalar(recv.T, recvT), args, nil)
		switch {
		case out.K == VTuple:
			fr.Results = out.Elems
		default:
			fr.Results = []*Val{out}
		}
		for i, r := range fr.Results {
			if i < sig.Results().Len() {
				fr.Results[i] = c.assignConv(r, implFn.Type().(*types.Signature).Results().At(i).Type(), sig.Results().At(i).Type())
			}
		}
		c.checkExit(ict)
	}()
	res.Obls = c.obls
	res.Paths = 1
	return res
}

func (e *Engine) posOfContract(ct *Contract) token.Pos { return token.NoPos }

// refineCallbacks: for higher-order methods the implementation's promise about the arguments it passes to the
// callback must imply the interface's, and its postconditions must imply the interface's (same ghost state).
func (c *Ctx) refineCallbacks(fr *Frame, ict, implCt *Contract, implFn *types.Func, recv *Val, args []*Val) {
	pi := fr.Pkg
	implFr := c.calleeFrame(pi, implFn, implCt, Scalar(recv.T, types.NewPointer(structNamed(recv.Typ))), args)
	implFr.OldHeap, implFr.OldTop = fr.OldHeap, fr.OldTop
	// requires
	c.Fr = implFr
	for i, r := range implCt.Requires {
		t := c.evalSpecBool(r.E)
		c.assert("refines-pre", fmt.Sprintf("%d", i+1), t, r.Src, nil)
	}
	// shared ghost state: arbitrary values
	for _, g := range ict.GhostVars {
		v, ts := c.bindVar(SBinder{g.Name, g.Type}, "g")
		for _, t := range ts {
			c.declare(t.S, t.Sort)
		}
		fr.Ghost[g.Name] = v
		implFr.Ghost[g.Name] = v
	}
	for name, icb := range ict.Callbacks {
		mcb := implCt.Callbacks[name]
		if mcb == nil {
			c.refuse("implementation %s has no callback contract for %s", implCt.Name, name)
		}
		// callback arguments
		var sig *types.Signature
		isig := fr.Sig
		for i := 0; i < isig.Params().Len(); i++ {
			if isig.Params().At(i).Name() == name {
				sig, _ = isig.Params().At(i).Type().Underlying().(*types.Signature)
			}
		}
		if sig == nil {
			c.refuse("callback parameter %s not found", name)
		}
		envI := &specEnv{vars: map[string]*Val{}}
		envM := &specEnv{vars: map[string]*Val{}}
		for i := 0; i < sig.Params().Len(); i++ {
			a := c.freshVal("cb", sig.Params().At(i).Type(), fr.Ints, fr.Floats)
			if i < len(icb.ParamNames) {
				envI.vars[icb.ParamNames[i]] = a
			}
			if i < len(mcb.ParamNames) {
				envM.vars[mcb.ParamNames[i]] = a
			}
		}
		n0 := len(c.St.Path)
		c.Fr, c.bound = implFr, envM
		for _, r := range mcb.Requires {
			c.assume(c.evalSpecBool(r.E))
		}
		c.Fr, c.bound = fr, envI
		for i, r := range icb.Requires {
			c.assert("refines-callback("+name+")", fmt.Sprintf("%d", i+1), c.evalSpecBool(r.E), r.Src, nil)
		}
		c.bound = nil
		c.St.Path = c.St.Path[:n0]
	}
	// postconditions over an arbitrary post-state
	c.havocEverything()
	c.Fr = implFr
	implFr.InEnsures = true
	for _, q := range implCt.Ensures {
		c.assume(c.evalSpecBool(q.E))
	}
	c.Fr = fr
	fr.InEnsures = true
	for i, q := range ict.Ensures {
		label := q.Label
		if label == "" {
			label = fmt.Sprintf("%d", i+1)
		}
		c.assert("ensures", label, c.evalSpecBool(q.E), q.Src, q.Serves)
	}
}

func structNamed(t types.Type) *types.Named {
	n, _ := structOf(t)
	return n
}
