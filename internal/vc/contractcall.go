package vc

// Contract application at call sites, modifies clauses, frames and effects.

import (
	"fmt"
	"go/ast"
	"go/token"
	"go/types"
	"sort"
	"strings"
)

type heapRef struct {
	name string
	sort Sort // full sort of the heap array
}

// ModEntry: ids (objects / arrays / cells / maps) whose storage in the listed heap arrays may change.
type ModEntry struct {
	qvars []Term
	guard Term
	id    Term
	heaps []heapRef
	all   bool // affects every heap array (unknown footprint)
	src   string
}

func (c *Ctx) fieldLeaves(owner *types.Named, f *types.Var) []heapRef {
	ints, floats := c.E.pkgModes(owner.Obj().Pkg())
	var out []heapRef
	var walk func(b string, t types.Type)
	walk = func(b string, t types.Type) {
		switch classify(t) {
		case TSlice:
			for _, sfx := range []string{"$arr", "$len", "$cap"} {
				out = append(out, heapRef{b + sfx, nestedArr(1, SInt)})
			}
		case TStruct:
			st := t.Underlying().(*types.Struct)
			for i := 0; i < st.NumFields(); i++ {
				walk(b+"."+st.Field(i).Name(), st.Field(i).Type())
			}
		case TArray:
			at := t.Underlying().(*types.Array)
			out = append(out, heapRef{b, nestedArr(1, ArrSort(SInt, scalarSort(at.Elem(), ints, floats)))})
		case TFunc:
		default:
			out = append(out, heapRef{b, nestedArr(1, scalarSort(t, ints, floats))})
		}
	}
	walk(fieldBase(owner, f.Name()), f.Type())
	return out
}

func (c *Ctx) structLeaves(t types.Type) []heapRef {
	n, st := structOf(t)
	if n == nil || st == nil {
		return nil
	}
	var out []heapRef
	for i := 0; i < st.NumFields(); i++ {
		f := st.Field(i)
		if f.Embedded() {
			if _, isStruct := f.Type().Underlying().(*types.Struct); isStruct {
				out = append(out, c.structLeaves(f.Type())...)
				continue
			}
		}
		out = append(out, c.fieldLeaves(n, f)...)
	}
	return out
}

// ownLeaves: the fields a struct type declares itself (not those of embedded structs).
func (c *Ctx) ownLeaves(n *types.Named) []heapRef {
	st, _ := n.Underlying().(*types.Struct)
	var out []heapRef
	for i := 0; st != nil && i < st.NumFields(); i++ {
		f := st.Field(i)
		if f.Embedded() {
			if _, isStruct := f.Type().Underlying().(*types.Struct); isStruct {
				continue
			}
		}
		out = append(out, c.fieldLeaves(n, f)...)
	}
	return out
}

func (c *Ctx) elemLeafRefs(elem types.Type) []heapRef {
	var out []heapRef
	for _, lf := range c.leaves(elem) {
		out = append(out, heapRef{lf.name, nestedArr(2, lf.sort)})
	}
	return out
}

func (c *Ctx) cellLeafRefs(elem types.Type) []heapRef {
	base := cellBase(elem) + modeSuffix(elem, c.Fr.Ints, c.Fr.Floats)
	var out []heapRef
	switch classify(elem) {
	case TSlice:
		for _, sfx := range []string{"$arr", "$off", "$len", "$cap"} {
			out = append(out, heapRef{base + sfx, nestedArr(1, SInt)})
		}
	case TStruct, TArray:
		c.refuse("pointer to %s is outside the subset", elem)
	default:
		out = append(out, heapRef{base, nestedArr(1, c.sortFor(elem))})
	}
	return out
}

func (c *Ctx) mapLeafRefs(m *types.Map) []heapRef {
	dn, vn, ln := mapHeapNames(c, m)
	vs := scalarSort(m.Elem(), c.Fr.Ints, c.Fr.Floats)
	return []heapRef{{dn, nestedArr(2, SBool)}, {vn, nestedArr(2, vs)}, {ln, nestedArr(1, SInt)}}
}

// implementers lists pointer-to-struct types in the loaded packages that implement iface.
func (e *Engine) implementers(iface *types.Interface) []*types.Named {
	var out []*types.Named
	var names []string
	byName := map[string]*types.Named{}
	for _, pi := range e.ByPath {
		sc := pi.P.Types.Scope()
		for _, nm := range sc.Names() {
			tn, ok := sc.Lookup(nm).(*types.TypeName)
			if !ok {
				continue
			}
			n, ok := tn.Type().(*types.Named)
			if !ok {
				continue
			}
			if _, isStruct := n.Underlying().(*types.Struct); !isStruct {
				continue
			}
			if types.Implements(types.NewPointer(n), iface) {
				k := namedKey(n)
				byName[k] = n
				names = append(names, k)
			}
		}
	}
	sort.Strings(names)
	for _, k := range names {
		out = append(out, byName[k])
	}
	return out
}

// embedders lists the struct types that embed n by value as their first field (same object reference).
func (e *Engine) embedders(n *types.Named) []*types.Named {
	var out []*types.Named
	var names []string
	by := map[string]*types.Named{}
	for _, pi := range e.ByPath {
		sc := pi.P.Types.Scope()
		for _, nm := range sc.Names() {
			tn, ok := sc.Lookup(nm).(*types.TypeName)
			if !ok {
				continue
			}
			t, ok := tn.Type().(*types.Named)
			if !ok {
				continue
			}
			st, ok := t.Underlying().(*types.Struct)
			if !ok {
				continue
			}
			for i := 0; i < st.NumFields(); i++ {
				f := st.Field(i)
				if f.Embedded() && types.Identical(f.Type(), n) {
					k := namedKey(t)
					by[k] = t
					names = append(names, k)
				}
			}
		}
	}
	sort.Strings(names)
	for _, k := range names {
		out = append(out, by[k])
	}
	return out
}

// evalModEntries evaluates a contract's modifies clause in the current frame (the callee's view, pre-state).
func (c *Ctx) evalModEntries(es []SExpr) []ModEntry {
	var out []ModEntry
	for _, e := range es {
		out = append(out, c.evalModEntry(e, nil, True)...)
	}
	return out
}

func (c *Ctx) evalModEntry(e SExpr, qvars []Term, guard Term) []ModEntry {
	src := e.String()
	switch x := e.(type) {
	case *SQuant:
		if !x.Forall {
			c.refuse("modifies: exists is not allowed")
		}
		env := &specEnv{vars: map[string]*Val{}, up: c.bound}
		vars := append([]Term{}, qvars...)
		for _, b := range x.Vars {
			v, ts := c.bindVar(b, "m")
			env.vars[b.Name] = v
			vars = append(vars, ts...)
		}
		saved := c.bound
		c.bound = env
		defer func() { c.bound = saved }()
		body := x.Body
		g := guard
		if imp, ok := body.(*SBin); ok && imp.Op == "==>" {
			n0 := len(c.St.Path)
			g = And(g, c.evalSpecBool(imp.L))
			c.St.Path = filterPath(c.St.Path, n0, vars)
			body = imp.R
		}
		n0 := len(c.St.Path)
		r := c.evalModEntry(body, vars, g)
		c.St.Path = filterPath(c.St.Path, n0, vars)
		return r
	case *SBin:
		if x.Op == "==>" {
			g := And(guard, c.evalSpecBool(x.L))
			return c.evalModEntry(x.R, qvars, g)
		}
	case *SCall:
		if id, ok := x.Fun.(*SIdent); ok {
			switch id.Name {
			case "arr", "contents":
				v := c.evalSpec(x.Args[0])
				if v.K != VSlice {
					c.refuse("modifies arr(): not a slice")
				}
				elem := v.Typ.Underlying().(*types.Slice).Elem()
				heaps := c.elemLeafRefs(elem)
				if classify(elem) == TInt && !isPlainInt(elem) {
					// fixed-width integer elements have two representations (mathematical / bit-vector): the
					// array is modified in both views
					for _, im := range []string{"wrap", "bv"} {
						es := scalarSort(elem, im, c.Fr.Floats)
						heaps = append(heaps, heapRef{elemBase(elem) + modeSuffix(elem, im, c.Fr.Floats), nestedArr(2, es)})
					}
				}
				return []ModEntry{{qvars: qvars, guard: guard, id: v.Arr, heaps: heaps, src: src}}
			case "footprint":
				v := c.evalSpec(x.Args[0])
				return c.footprintEntries(v, qvars, guard, src)
			case "everything":
				return []ModEntry{{qvars: qvars, guard: guard, all: true, src: src}}
			}
		}
	case *SUn:
		if x.Op == "*" {
			v := c.evalSpec(x.X)
			p, ok := v.Typ.Underlying().(*types.Pointer)
			if !ok {
				c.refuse("modifies *e: not a pointer")
			}
			return []ModEntry{{qvars: qvars, guard: guard, id: v.T, heaps: c.cellLeafRefs(p.Elem()), src: src}}
		}
	case *SSel:
		// s.f : a single field (for a map-typed field: the map object it refers to)
		if fv := c.evalSpecMaybe(e); fv != nil && fv.K == VScalar && fv.Typ != nil {
			if mt, ok := fv.Typ.Underlying().(*types.Map); ok {
				return []ModEntry{{qvars: qvars, guard: guard, id: fv.T, heaps: c.mapLeafRefs(mt), src: src}}
			}
			if _, isPtr := fv.Typ.Underlying().(*types.Pointer); isPtr && classify(fv.Typ) == TRef {
				// a pointer-typed field names the object it refers to
				return []ModEntry{{qvars: qvars, guard: guard, id: fv.T, heaps: c.structLeaves(fv.Typ), src: src}}
			}
		}
		base := c.evalSpec(x.X)
		if base.K == VScalar && base.Typ != nil {
			if n, _ := structOf(base.Typ); n != nil {
				obj, index, _ := types.LookupFieldOrMethod(base.Typ, true, n.Obj().Pkg(), x.Name)
				if fv, ok := obj.(*types.Var); ok {
					saved := c.noNilChecks
					c.noNilChecks = true
					ref, owner, f, sv := c.walkToField(nil, base, base.Typ, index)
					c.noNilChecks = saved
					if sv == nil {
						_ = fv
						return []ModEntry{{qvars: qvars, guard: guard, id: ref, heaps: c.fieldLeaves(owner, f), src: src}}
					}
				}
			}
		}
	}
	v := c.evalSpec(e)
	if v.K == VScalar && v.Typ != nil {
		switch u := v.Typ.Underlying().(type) {
		case *types.Pointer:
			if classify(v.Typ) == TRef {
				return []ModEntry{{qvars: qvars, guard: guard, id: v.T, heaps: c.structLeaves(v.Typ), src: src}}
			}
			return []ModEntry{{qvars: qvars, guard: guard, id: v.T, heaps: c.cellLeafRefs(u.Elem()), src: src}}
		case *types.Map:
			return []ModEntry{{qvars: qvars, guard: guard, id: v.T, heaps: c.mapLeafRefs(u), src: src}}
		case *types.Interface:
			var out []ModEntry
			for _, n := range c.E.implementers(u) {
				g := And(guard, Eq(App(SInt, "dyntype", v.T), IntLit(int64(c.E.typeTag(namedKey(n))))))
				out = append(out, ModEntry{qvars: qvars, guard: g, id: v.T, heaps: c.structLeaves(n), src: src})
			}
			return out
		}
	}
	c.refuse("unsupported modifies entry %s", src)
	return nil
}

// footprintEntries expands the declared footprint of the static (or each possible dynamic) type of v.
func (c *Ctx) footprintEntries(v *Val, qvars []Term, guard Term, src string) []ModEntry {
	if v.Typ == nil {
		c.refuse("footprint() of untyped value")
	}
	expand := func(n *types.Named, g Term) []ModEntry {
		pi := c.E.ByPath[n.Obj().Pkg().Path()]
		if pi == nil {
			c.refuse("footprint(): type %s not loaded", n)
		}
		sf := pi.Spec.Funs["Footprint$"+n.Obj().Name()]
		if sf == nil {
			// default: the object itself
			return []ModEntry{{qvars: qvars, guard: g, id: v.T, heaps: c.structLeaves(n), src: src}}
		}
		// the footprint is declared as `fun Footprint$T(s *T) := $tuple(entries...)`
		fr := &Frame{Pkg: pi, Vars: map[types.Object]*Val{}, Boxed: map[types.Object]Term{}, ByName: map[string][]types.Object{},
			Ghost: map[string]*Val{}, Ints: pi.Spec.Ints, Floats: pi.Spec.Floats, OldHeap: c.Fr.OldHeap, OldTop: c.Fr.OldTop}
		savedFr, savedBound := c.Fr, c.bound
		c.Fr = fr
		c.bound = &specEnv{vars: map[string]*Val{sf.Params[0].Name: Scalar(v.T, types.NewPointer(n))}}
		defer func() { c.Fr, c.bound = savedFr, savedBound }()
		var out []ModEntry
		for _, e := range sf.Body.(*SCall).Args {
			out = append(out, c.evalModEntry(e, qvars, g)...)
		}
		// the object may be the embedded part of a larger struct (same reference): the other fields of that
		// struct belong to the same footprint
		for _, emb := range c.E.embedders(n) {
			ge := And(g, Eq(App(SInt, "dyntype", v.T), IntLit(int64(c.E.typeTag(namedKey(emb))))))
			out = append(out, ModEntry{qvars: qvars, guard: ge, id: v.T, heaps: c.ownLeaves(emb), src: src})
		}
		return out
	}
	if n, st := structOf(v.Typ); n != nil && st != nil {
		return expand(n, guard)
	}
	if u, ok := v.Typ.Underlying().(*types.Interface); ok {
		var out []ModEntry
		// dynamic types outside the interface invariant (`covers`) have no footprint through the interface: the
		// invariant excludes them, and values of those types are handled through their concrete type only
		var ipi *PkgInfo
		if nt, ok := v.Typ.(*types.Named); ok && nt.Obj().Pkg() != nil {
			ipi = c.E.ByPath[nt.Obj().Pkg().Path()]
		}
		for _, n := range c.E.implementers(u) {
			if ipi != nil && ipi.Spec != nil && hasCovers(ipi) && !c.E.invCovers(ipi, n) {
				continue
			}
			g := And(guard, Eq(App(SInt, "dyntype", v.T), IntLit(int64(c.E.typeTag(namedKey(n))))))
			out = append(out, expand(n, g)...)
		}
		return out
	}
	c.refuse("footprint() of %s", v.Typ)
	return nil
}

// inMod builds the predicate "id r is in the modifies set for heap array name".
func inModPred(entries []ModEntry) func(r Term, name string) Term {
	return func(r Term, name string) Term {
		var ds []Term
		for _, e := range entries {
			hit := e.all
			for _, h := range e.heaps {
				if h.name == name {
					hit = true
					break
				}
			}
			if !hit {
				continue
			}
			if e.all {
				ds = append(ds, e.guard)
				continue
			}
			body := And(e.guard, Eq(r, e.id))
			if len(e.qvars) > 0 {
				body = Exists(e.qvars, body)
			}
			ds = append(ds, body)
		}
		return Or(ds...)
	}
}

// havocCall applies the frame of a call: listed heap arrays change only at the listed ids.
func (c *Ctx) havocCall(entries []ModEntry) {
	oldTop := c.St.Top
	nt := c.fresh("top", SInt)
	c.assume(Le(oldTop, nt))
	c.St.Top = nt
	for _, e := range entries {
		if e.all {
			c.havocEverything()
			return
		}
	}
	byHeap := map[string][]ModEntry{}
	sorts := map[string]Sort{}
	var names []string
	for _, e := range entries {
		for _, h := range e.heaps {
			if _, ok := byHeap[h.name]; !ok {
				names = append(names, h.name)
			}
			byHeap[h.name] = append(byHeap[h.name], e)
			sorts[h.name] = h.sort
		}
	}
	sort.Strings(names)
	for _, n := range names {
		cur := c.heapArr(n, sorts[n])
		simple := true
		for _, e := range byHeap[n] {
			if len(e.qvars) > 0 {
				simple = false
			}
		}
		if simple {
			h := cur
			for _, e := range byHeap[n] {
				fv := c.fresh("hv", cur.Sort.ElemSort())
				// id 0 is nil (no storage): nothing to change there
				h = Ite(And(e.guard, Not(Eq(e.id, IntLit(0)))), Store(h, e.id, fv), h)
			}
			c.setHeap(n, h)
			continue
		}
		h := c.fresh("H$"+n, cur.Sort)
		r := Term{S: "fr!r", Sort: SInt}
		in := inModPred(byHeap[n])(r, n)
		c.assume(Forall([]Term{r}, Implies(And(Lt(r, oldTop), Or(Not(in), Eq(r, IntLit(0)))), StructEq(Select(h, r), Select(cur, r))), []Term{Select(h, r)}))
		c.St.Heap[n] = h
	}
}

// havocEverything forgets the whole heap (materialised arrays now, the others through the epoch).
func (c *Ctx) havocEverything() {
	names := make([]string, 0, len(c.St.Heap))
	for n := range c.St.Heap {
		names = append(names, n)
	}
	sort.Strings(names)
	c.St.Epoch = c.nextEpoch()
	for _, n := range names {
		if strings.HasPrefix(n, "glob$") || c.E.immutableHeap(n) {
			continue
		}
		cur := c.St.Heap[n]
		h := c.fresh("H$"+n, cur.Sort)
		c.St.Heap[n] = h
		c.assumeFrame(n, h)
	}
}

func (c *Ctx) nextEpoch() int {
	c.epochs++
	return c.epochs
}

// ---------------------------------------------------------------- contract call

func (c *Ctx) calleeFrame(pi *PkgInfo, fo *types.Func, ct *Contract, recv *Val, args []*Val) *Frame {
	sig := fo.Type().(*types.Signature)
	fr := &Frame{Fn: fo, Pkg: pi, Contract: ct, Vars: map[types.Object]*Val{}, Boxed: map[types.Object]Term{},
		ByName: map[string][]types.Object{}, Ghost: map[string]*Val{}, Entry: map[types.Object]*Val{},
		Ints: pi.Spec.Ints, Floats: pi.Spec.Floats, Sig: sig, Caller: c.Fr}
	if ct.Ints != "" {
		fr.Ints = ct.Ints
	}
	if ct.Floats != "" {
		fr.Floats = ct.Floats
	}
	if r := sig.Recv(); r != nil {
		name := r.Name()
		if name == "" || name == "_" {
			name = "this"
		}
		o := types.NewVar(token.NoPos, fo.Pkg(), name, r.Type())
		if fd := pi.FuncDecls[fo]; fd != nil && fd.Recv != nil && len(fd.Recv.List) == 1 && len(fd.Recv.List[0].Names) == 1 {
			if d, ok := pi.P.TypesInfo.Defs[fd.Recv.List[0].Names[0]].(*types.Var); ok {
				o = d
			}
		}
		fr.Vars[o] = recv
		fr.Entry[o] = recv
		fr.ByName[o.Name()] = append(fr.ByName[o.Name()], o)
		// interface methods: receiver is conventionally called `this`
		if _, isIface := r.Type().Underlying().(*types.Interface); isIface && o.Name() != "this" {
			fr.ByName["this"] = append(fr.ByName["this"], o)
		}
	}
	for i := 0; i < sig.Params().Len(); i++ {
		p := sig.Params().At(i)
		v := args[i]
		fr.Vars[p] = v
		fr.Entry[p] = v
		name := p.Name()
		if name == "" {
			name = fmt.Sprintf("arg%d", i)
		}
		fr.ByName[name] = append(fr.ByName[name], p)
	}
	fr.ResultVars = make([]types.Object, sig.Results().Len())
	for i := 0; i < sig.Results().Len(); i++ {
		r := sig.Results().At(i)
		if r.Name() != "" && r.Name() != "_" {
			fr.ResultVars[i] = r
			fr.ByName[r.Name()] = append(fr.ByName[r.Name()], r)
		}
	}
	return fr
}

// paramsForDecl maps declared parameter objects (from the FuncDecl) when available so that names match the source.
func (c *Ctx) callContract(pi *PkgInfo, fo *types.Func, ct *Contract, recv *Val, args []*Val, x *ast.CallExpr) *Val {
	callerFr := c.Fr
	callerInts, callerFloats := callerFr.Ints, callerFr.Floats
	sig := fo.Type().(*types.Signature)
	ci, cfl := pi.Spec.Ints, pi.Spec.Floats
	if ct.Ints != "" {
		ci = ct.Ints
	}
	if ct.Floats != "" {
		cfl = ct.Floats
	}
	// convert arguments into the callee's modes
	cargs := make([]*Val, len(args))
	for i, a := range args {
		cargs[i] = c.modeConv(a, sig.Params().At(i).Type(), callerInts, callerFloats, ci, cfl)
	}
	cf := c.calleeFrame(pi, fo, ct, recv, cargs)
	key := pi.Name + "." + ct.Name
	c.E.Called[key] = true
	c.callOrd[key]++
	ord := c.callOrd[key]
	if x != nil {
		if so, ok := c.callSiteOrd[x]; ok {
			ord = so // source-order ordinal of this call site
		}
	}
	c.Fr = cf
	defer func() { c.Fr = callerFr }()
	pos := c.curPos
	// receivers of concrete methods are non-nil when the call is reached through a non-nil pointer
	if recv != nil && recv.K == VScalar && classify(sig.Recv().Type()) == TRef {
		if _, isIface := sig.Recv().Type().Underlying().(*types.Interface); isIface {
			c.curPos = pos
			c.Fr = callerFr
			c.assert("nil", "iface", Not(Eq(recv.T, IntLit(0))), "method call on nil interface value", nil)
			c.Fr = cf
		}
	}
	for i, r := range ct.Requires {
		c.useLemmas(r.Using)
		t := c.evalSpecBool(r.E)
		label := r.Label
		if label == "" {
			label = fmt.Sprintf("%d", i+1)
		}
		c.curPos = pos
		c.assertAt(callerFr, fmt.Sprintf("pre(%s#%d)", ct.Name, ord), label, t, r.Src, ct.Serves)
	}
	cf.OldHeap = c.St.cloneHeap()
	cf.OldTop = c.St.Top
	cf.OldEpoch = c.St.Epoch
	// a function literal passed for a parameter with a callback contract: loop-like treatment
	litHandled := false
	for name, cb := range ct.Callbacks {
		for i := 0; i < sig.Params().Len(); i++ {
			if sig.Params().At(i).Name() == name && cargs[i] != nil && cargs[i].K == VFunc && cargs[i].Fn != nil {
				if lit, ok := cargs[i].Fn.Lit.(*ast.FuncLit); ok && lit != nil {
					c.callWithLiteral(cf, callerFr, ct, cb, cargs[i], lit, x, pos)
					litHandled = true
				}
			}
		}
	}
	if !litHandled {
		if len(ct.Callbacks) > 0 {
			c.Fr = callerFr
			c.refuse("call of %s passes a non-literal function for a callback parameter", ct.Name)
		}
		entries := c.evalModEntries(ct.Modifies)
		c.havocCall(entries)
		c.autoFrame(entries)
	}
	// results
	n := sig.Results().Len()
	cf.Results = make([]*Val, n)
	for i := 0; i < n; i++ {
		rt := sig.Results().At(i).Type()
		cf.Results[i] = c.freshVal(fmt.Sprintf("r$%s", fo.Name()), rt, cf.Ints, cf.Floats)
	}
	cf.InEnsures = true
	// ghost variables of the callee are internal: from outside, the postconditions hold for some value of them
	for _, g := range ct.GhostVars {
		if _, have := cf.Ghost[g.Name]; !have {
			v, ts := c.bindVar(SBinder{g.Name, g.Type}, "e")
			for _, t := range ts {
				c.declare(t.S, t.Sort)
			}
			cf.Ghost[g.Name] = v
		}
	}
	for _, e := range ct.Ensures {
		c.assume(c.evalSpecBool(e.E))
	}
	var out []*Val
	for i, r := range cf.Results {
		c.Fr = callerFr
		out = append(out, c.modeConv(r, sig.Results().At(i).Type(), cf.Ints, cf.Floats, callerInts, callerFloats))
		c.Fr = cf
	}
	c.curPos = pos
	c.Fr = callerFr
	c.afterCall(fmt.Sprintf("%s#%d", key, ord), out)
	c.Fr = cf
	switch len(out) {
	case 0:
		return &Val{K: VTuple}
	case 1:
		return out[0]
	}
	return &Val{K: VTuple, Elems: out}
}

// afterCall runs the ghost statements attached to this call ordinal in the contract of the function under verification.
func (c *Ctx) afterCall(key string, results []*Val) {
	root := c.Fr
	for root.Parent != nil {
		root = root.Parent
	}
	if root.Contract == nil || root.Contract.After == nil {
		return
	}
	acts := root.Contract.After[key]
	if len(acts) == 0 {
		return
	}
	env := &specEnv{vars: map[string]*Val{}, up: c.bound}
	for i, r := range results {
		if i == 0 {
			env.vars["$result"] = r
		}
		env.vars[fmt.Sprintf("$result%d", i)] = r
	}
	saved := c.bound
	c.bound = env
	defer func() { c.bound = saved }()
	for _, a := range acts {
		switch a.Kind {
		case "ghost":
			root.Ghost[a.Name] = c.evalSpec(a.C.E)
		case "assume":
			c.E.noteAssumption(c.FuncName + ": after " + key + " assume " + a.C.Src)
			c.assume(c.evalSpecBool(a.C.E))
		case "assert":
			c.useLemmas(a.C.Using)
			label := a.C.Label
			if label == "" {
				label = key
			}
			c.assert("after", label, c.evalSpecBool(a.C.E), a.C.Src, a.C.Serves)
		}
	}
}

func (c *Ctx) modeConvFrom(callerFr *Frame, v *Val, t types.Type, fi, ff, ti, tf string) *Val {
	saved := c.Fr
	c.Fr = callerFr
	defer func() { c.Fr = saved }()
	return c.modeConv(v, t, fi, ff, ti, tf)
}

// assertAt records an obligation attributed to the function under verification.
func (c *Ctx) assertAt(fr *Frame, kind, label string, goal Term, src string, serves []string) {
	c.assert(kind, label, goal, src, serves)
}

// callCallback: call of a function value that is a parameter of the function under verification.
func (c *Ctx) callCallback(fv *Val, name string, args []*Val, x *ast.CallExpr) *Val {
	root := c.Fr
	for root.Parent != nil {
		root = root.Parent
	}
	ct := root.Contract
	if ct == nil || ct.Callbacks[name] == nil {
		c.refuse("call of function value %s without a callback contract", name)
	}
	cb := ct.Callbacks[name]
	sig := fv.Fn.Sig
	// bind callback parameter names
	env := &specEnv{vars: map[string]*Val{}, up: c.bound}
	for i := 0; i < sig.Params().Len(); i++ {
		pn := sig.Params().At(i).Name()
		if i < len(cb.ParamNames) {
			pn = cb.ParamNames[i]
		}
		if pn != "" {
			env.vars[pn] = args[i]
		}
	}
	saved := c.bound
	c.bound = env
	pos := c.curPos
	for i, r := range cb.Requires {
		t := c.evalSpecBool(r.E)
		label := r.Label
		if label == "" {
			label = fmt.Sprintf("%d", i+1)
		}
		c.curPos = pos
		c.assert(fmt.Sprintf("callback-pre(%s)", name), label, t, r.Src, r.Serves)
	}
	// effects: the callback may change anything outside the preserved footprint
	oldHeap := c.St.cloneHeap()
	oldTop := c.St.Top
	oldEpoch := c.St.Epoch
	var keep []ModEntry
	for _, e := range cb.Preserves {
		keep = append(keep, c.evalModEntry(e, nil, True)...)
	}
	c.bound = saved
	keepsAll := false
	for _, e := range keep {
		if e.all {
			keepsAll = true
		}
	}
	if keepsAll {
		// `preserves everything()`: the callback only allocates (its results live above the old frontier)
		nt := c.fresh("top", SInt)
		c.assume(Le(c.St.Top, nt))
		c.St.Top = nt
	} else {
		c.havocEverythingExcept(keep, oldHeap, oldTop)
	}
	// results
	n := sig.Results().Len()
	res := make([]*Val, n)
	for i := 0; i < n; i++ {
		res[i] = c.freshVal("cb$"+name, sig.Results().At(i).Type(), c.Fr.Ints, c.Fr.Floats)
	}
	// ghost updates and ensures
	env2 := &specEnv{vars: map[string]*Val{}, up: env}
	for i := 0; i < n; i++ {
		rn := sig.Results().At(i).Name()
		if i < len(cb.ResultNames) {
			rn = cb.ResultNames[i]
		}
		if rn != "" {
			env2.vars[rn] = res[i]
		}
		if i == 0 {
			env2.vars["cbresult"] = res[i]
		}
	}
	c.bound = env2
	savedOld, savedOldTop, savedEpoch := c.Fr.OldHeap, c.Fr.OldTop, c.Fr.OldEpoch
	_ = oldEpoch
	for _, g := range cb.GhostUpdates {
		v := c.evalSpec(g.E)
		c.rootGhostFrame().Ghost[g.Name] = v
	}
	// in the callback's postconditions old() is the state in which it was called
	c.Fr.OldHeap, c.Fr.OldTop = oldHeap, oldTop
	for _, e := range cb.Ensures {
		c.assume(c.evalSpecBool(e.E))
	}
	c.framePreserved(keep)
	c.Fr.OldHeap, c.Fr.OldTop, c.Fr.OldEpoch = savedOld, savedOldTop, savedEpoch
	c.bound = saved
	switch n {
	case 0:
		return &Val{K: VTuple}
	case 1:
		return res[0]
	}
	return &Val{K: VTuple, Elems: res}
}

func (c *Ctx) rootGhostFrame() *Frame {
	fr := c.Fr
	for fr.Parent != nil {
		fr = fr.Parent
	}
	return fr
}

// havocEverythingExcept: every heap array becomes fresh except at the listed ids (which keep their values).
func (c *Ctx) havocEverythingExcept(keep []ModEntry, oldHeap map[string]Term, oldTop Term) {
	names := make([]string, 0, len(c.St.Heap))
	for n := range c.St.Heap {
		names = append(names, n)
	}
	// make sure the preserved arrays are materialised
	for _, e := range keep {
		for _, h := range e.heaps {
			if _, ok := c.St.Heap[h.name]; !ok {
				c.heapArr(h.name, h.sort)
				names = append(names, h.name)
			}
		}
	}
	sort.Strings(names)
	nt := c.fresh("top", SInt)
	c.assume(Le(c.St.Top, nt))
	c.St.Top = nt
	c.St.Epoch = c.nextEpoch()
	pred := inModPred(keep)
	for _, n := range names {
		if strings.HasPrefix(n, "glob$") || c.E.immutableHeap(n) {
			continue
		}
		cur := c.St.Heap[n]
		h := c.fresh("H$"+n, cur.Sort)
		r := Term{S: "fr!r", Sort: SInt}
		in := pred(r, n)
		if in.B == nil || *in.B {
			c.assume(Forall([]Term{r}, Implies(in, StructEq(Select(h, r), Select(cur, r))), []Term{Select(h, r)}))
		}
		c.St.Heap[n] = h
		c.assumeFrame(n, h)
	}
}

// ---------------------------------------------------------------- lemma use

func (c *Ctx) useLemmas(uses []SExpr) {
	for _, u := range uses {
		call, ok := u.(*SCall)
		if !ok {
			c.refuse("using: expected lemma application, got %s", u.String())
		}
		name := ""
		pi := c.Fr.Pkg
		switch f := call.Fun.(type) {
		case *SIdent:
			name = f.Name
		case *SSel:
			if id, ok := f.X.(*SIdent); ok {
				name = f.Name
				if p := c.E.Pkgs[id.Name]; p != nil {
					pi = p
				} else if path := c.importPath(id.Name); path != "" && c.E.ByPath[path] != nil {
					pi = c.E.ByPath[path]
				}
			}
		}
		lm := pi.Spec.Lemmas[name]
		if lm == nil {
			// lemmas shared from other packages' prelude files
			for _, p := range c.E.Pkgs {
				if l := p.Spec.Lemmas[name]; l != nil {
					lm, pi = l, p
					break
				}
			}
		}
		if lm == nil {
			c.refuse("unknown lemma %s", name)
		}
		if len(call.Args) != len(lm.Params) {
			c.refuse("lemma %s: expected %d arguments", name, len(lm.Params))
		}
		var args []*Val
		for _, a := range call.Args {
			args = append(args, c.evalSpec(a))
		}
		c.applyLemma(pi, lm, args)
	}
}

func (c *Ctx) applyLemma(pi *PkgInfo, lm *Lemma, args []*Val) {
	c.E.LemmaUse[pi.Name+"."+lm.Name]++
	fr := &Frame{Pkg: pi, Vars: map[types.Object]*Val{}, Boxed: map[types.Object]Term{}, ByName: map[string][]types.Object{},
		Ghost: map[string]*Val{}, Ints: pi.Spec.Ints, Floats: pi.Spec.Floats, OldHeap: c.Fr.OldHeap, OldTop: c.Fr.OldTop, OldEpoch: c.Fr.OldEpoch}
	savedFr, savedBound := c.Fr, c.bound
	c.Fr = fr
	env := &specEnv{vars: map[string]*Val{}}
	for i, p := range lm.Params {
		_, s := c.specSort(p.Type)
		a := args[i]
		if (a.K == VScalar || a.K == VLogic) && s != "" && a.T.Sort != s {
			na := *a
			na.T = c.coerce(a.T, s)
			a = &na
		}
		env.vars[p.Name] = a
	}
	c.bound = env
	var pre, post []Term
	for _, r := range lm.Requires {
		pre = append(pre, c.evalSpecBool(r.E))
	}
	for _, e := range lm.Ensures {
		post = append(post, c.evalSpecBool(e.E))
	}
	c.Fr, c.bound = savedFr, savedBound
	// instance of an already established (or axiomatic) fact: premise ==> conclusion
	c.assume(Implies(And(pre...), And(post...)))
}

// evalSpecMaybe evaluates e, returning nil when it is outside the supported forms.
func (c *Ctx) evalSpecMaybe(e SExpr) (v *Val) {
	defer func() {
		if r := recover(); r != nil {
			if _, ok := r.(refusal); ok {
				v = nil
				return
			}
			panic(r)
		}
	}()
	return c.evalSpec(e)
}

// callWithLiteral: the callee calls the literal an unknown number of times; the caller supplies an invariant
// (`foreach N invariant`) over its own state and the callee's ghost state.
func (c *Ctx) callWithLiteral(cf, callerFr *Frame, ct *Contract, cb *CallbackSpec, fv *Val, lit *ast.FuncLit, x *ast.CallExpr, pos token.Pos) {
	root := callerFr
	for root.Parent != nil {
		root = root.Parent
	}
	ord := c.feOrd[x]
	var ls *LoopSpec
	if root.Contract != nil {
		ls = root.Contract.Foreach[ord]
	}
	if ls == nil || len(ls.Invariants) == 0 {
		c.Fr = callerFr
		c.curPos = pos
		c.refuse("call #%d with a function literal has no `foreach %d invariant`", ord, ord)
	}
	// callee ghost state
	for _, g := range ct.GhostVars {
		if g.Init == nil {
			c.refuse("ghost variable %s of %s needs an initial value", g.Name, ct.Name)
		}
		cf.Ghost[g.Name] = c.evalSpec(g.Init)
	}
	saved := map[string]*Val{}
	expose := func() {
		for _, g := range ct.GhostVars {
			root.Ghost[g.Name] = cf.Ghost[g.Name]
		}
	}
	// the callee's ghost state stays visible to the caller's later assertions and lemma hints
	_ = saved
	expose()
	inCaller := func(f func()) {
		sv := c.Fr
		c.Fr = callerFr
		c.curPos = pos
		f()
		c.Fr = sv
	}
	inCaller(func() { c.checkInvariants(ls, ord, "foreach-init") })
	// havoc what the literal may change
	var keep []ModEntry
	for _, e := range cb.Preserves {
		keep = append(keep, c.evalModEntry(e, nil, True)...)
	}
	inCaller(func() {
		assigned := c.assignedIn(lit.Body)
		for o := range assigned {
			if _, ok := c.boxedCell(o); ok {
				continue
			}
			if cur, ok := c.Fr.lookupVar(o); ok && cur.K != VFunc {
				c.Fr.setVar(o, c.freshVal(o.Name(), o.Type(), c.Fr.Ints, c.Fr.Floats))
			}
		}
	})
	c.havocEverythingExcept(keep, nil, Term{})
	for _, g := range ct.GhostVars {
		v, ts := c.bindVar(SBinder{g.Name, g.Type}, "h")
		for _, t := range ts {
			c.declare(t.S, t.Sort)
		}
		cf.Ghost[g.Name] = v
	}
	expose()
	inCaller(func() { c.assumeInvariants(ls) })
	if c.choose(2) == 0 {
		// one more call of the literal
		sig := fv.Fn.Sig
		env := &specEnv{vars: map[string]*Val{}, up: c.bound}
		var args []*Val
		for i := 0; i < sig.Params().Len(); i++ {
			pn := sig.Params().At(i).Name()
			if i < len(cb.ParamNames) {
				pn = cb.ParamNames[i]
			}
			// the argument originates in the callee: it is created in the callee's representation and converted
			// into the literal's (a real-mode callee can only pass finite floats)
			pt := sig.Params().At(i).Type()
			ca := c.freshVal("cb$"+pn, pt, cf.Ints, cf.Floats)
			var a *Val
			inCaller(func() { a = c.modeConv(ca, pt, cf.Ints, cf.Floats, callerFr.Ints, callerFr.Floats) })
			args = append(args, a)
			if pn != "" {
				env.vars[pn] = ca
			}
		}
		savedBound := c.bound
		c.bound = env
		for _, r := range cb.Requires {
			c.assume(c.evalSpecBool(r.E)) // the callee's promise about the arguments it passes
		}
		c.bound = savedBound
		before := c.St.cloneHeap()
		var res *Val
		inCaller(func() {
			res = c.inlineCall(fv.Fn.Env.Pkg, nil, lit.Type, nil, lit.Body, nil, nil, args, fv.Fn.Env)
		})
		// the literal must leave the preserved footprint alone
		for _, e := range keep {
			for _, h := range e.heaps {
				cur := c.heapArr(h.name, h.sort)
				prev := c.heapArrIn(before, h.name, h.sort)
				if cur.S == prev.S {
					continue
				}
				goal := Implies(e.guard, StructEq(Select(cur, e.id), Select(prev, e.id)))
				if len(e.qvars) > 0 {
					goal = Forall(e.qvars, goal)
				}
				inCaller(func() {
					c.assert(fmt.Sprintf("callback-preserves(%s#%d)", ct.Name, ord), h.name, goal, "the function literal must not modify "+e.src, nil)
				})
			}
		}
		env2 := &specEnv{vars: map[string]*Val{}, up: env}
		env2.vars["cbresult"] = nil
		var results []*Val
		if res != nil && res.K == VTuple {
			results = res.Elems
		} else if res != nil {
			results = []*Val{res}
		}
		for i, r := range results {
			rn := ""
			if i < sig.Results().Len() {
				rn = sig.Results().At(i).Name()
			}
			if i < len(cb.ResultNames) {
				rn = cb.ResultNames[i]
			}
			if rn != "" {
				env2.vars[rn] = r
			}
			if i == 0 {
				env2.vars["cbresult"] = r
			}
		}
		if env2.vars["cbresult"] == nil {
			delete(env2.vars, "cbresult")
		}
		c.bound = env2
		// what the callee relies on about the function it calls back
		cbOld, cbTop := cf.OldHeap, cf.OldTop
		cf.OldHeap, cf.OldTop = before, c.St.Top
		for i, q := range cb.Ensures {
			t := c.evalSpecBool(q.E)
			label := q.Label
			if label == "" {
				label = fmt.Sprintf("%d", i+1)
			}
			inCaller(func() {
				c.assert(fmt.Sprintf("callback-post(%s#%d)", ct.Name, ord), label, t, q.Src, q.Serves)
			})
		}
		cf.OldHeap, cf.OldTop = cbOld, cbTop
		newGhost := map[string]*Val{}
		for _, g := range cb.GhostUpdates {
			newGhost[g.Name] = c.evalSpec(g.E)
		}
		for n, v := range newGhost {
			root.Ghost[n+"$pre"] = cf.Ghost[n] // value before this call of the literal (for lemma hints)
			cf.Ghost[n] = v
		}
		for i, a := range args {
			root.Ghost[fmt.Sprintf("$cbarg%d", i)] = a
		}
		c.bound = savedBound
		expose()
		inCaller(func() { c.checkInvariants(ls, ord, "foreach-keep") })
		panic(pathEnd{"foreach body end"})
	}
	// the callee returns: its postconditions hold of the (invariant-constrained) state
}

// framePreserved: after a callback that preserves the listed locations, every opaque function applied to an x whose
// whole footprint lies within the preserved locations keeps its value (c.Fr.OldHeap is the pre-call heap).
func (c *Ctx) framePreserved(keep []ModEntry) {
	if len(c.opaqueApps) == 0 || c.inAutoFrame || len(keep) == 0 {
		return
	}
	c.inAutoFrame = true
	defer func() { c.inAutoFrame = false }()
	apps := append([]opaqueApp{}, c.opaqueApps...)
	for _, app := range apps {
		x := app.x
		var cond Term
		okc := true
		func() {
			defer func() {
				if r := recover(); r != nil {
					if _, isRef := r.(refusal); isRef {
						okc = false
						return
					}
					panic(r)
				}
			}()
			savedOld := c.inOld
			c.inOld = true
			fx := c.footprintEntries(x, nil, True, "framePreserved")
			c.inOld = savedOld
			var conj []Term
			for _, p := range fx {
				if len(p.qvars) > 0 {
					okc = false
					return
				}
				for _, h := range p.heaps {
					var alts []Term
					for _, k := range keep {
						if len(k.qvars) > 0 {
							continue
						}
						for _, kh := range k.heaps {
							if kh.name == h.name {
								alts = append(alts, And(k.guard, Eq(k.id, p.id)))
							}
						}
					}
					conj = append(conj, Implies(p.guard, Or(alts...)))
				}
			}
			cond = And(conj...)
		}()
		if !okc || (cond.B != nil && !*cond.B) {
			continue
		}
		if cond.B == nil {
			cn := c.fresh("kept", SBool)
			c.assume(Eq(cn, cond))
			cond = cn
		}
		var names []string
		for n := range app.pi.Spec.Funs {
			names = append(names, n)
		}
		sort.Strings(names)
		for _, n := range names {
			sf := app.pi.Spec.Funs[n]
			if !sf.Opaque || sf.Body == nil || len(sf.Params) == 0 {
				continue
			}
			func() {
				defer func() {
					if r := recover(); r != nil {
						if _, isRef := r.(refusal); isRef {
							return
						}
						panic(r)
					}
				}()
				saved := c.Fr
				c.Fr = &Frame{Pkg: app.pi, Vars: map[types.Object]*Val{}, Boxed: map[types.Object]Term{}, ByName: map[string][]types.Object{},
					Ghost: map[string]*Val{}, Ints: app.pi.Spec.Ints, Floats: app.pi.Spec.Floats, OldHeap: saved.OldHeap, OldTop: saved.OldTop}
				pt, _ := c.specSort(sf.Params[0].Type)
				args := []*Val{x}
				var extra []Term
				okT := pt != nil && x.Typ != nil && types.AssignableTo(x.Typ, pt)
				if okT {
					for _, p := range sf.Params[1:] {
						bv, ts := c.bindVar(p, "q")
						args = append(args, bv)
						extra = append(extra, ts...)
					}
				}
				c.Fr = saved
				if !okT {
					return
				}
				savedOld := c.inOld
				c.inOld = true
				pre := c.applySpecFun(app.pi, sf, args)
				c.inOld = false
				post := c.applySpecFun(app.pi, sf, args)
				c.inOld = savedOld
				if (pre.K != VScalar && pre.K != VLogic) || pre.T.S == post.T.S {
					return
				}
				eq := StructEq(post.T, pre.T)
				if len(extra) > 0 {
					eq = Forall(extra, eq, []Term{post.T})
				}
				c.assume(Implies(cond, eq))
			}()
		}
	}
}

func hasCovers(pi *PkgInfo) bool {
	for n := range pi.Spec.Funs {
		if strings.HasPrefix(n, "Covers$") {
			return true
		}
	}
	return false
}
