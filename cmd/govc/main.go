package main

import (
	"flag"
	"fmt"
	"os"

	"verif/internal/check"
)

func main() {
	var cfg check.Config
	flag.StringVar(&cfg.Repo, "repo", envOr("VERIF_REPO", "/repo"), "repository root")
	flag.StringVar(&cfg.Prop, "prop", "", "property id (C01..C20); empty = all functions under contract")
	flag.StringVar(&cfg.Tier, "tier", envOr("VERIF_TIER", "quick"), "quick|thorough")
	flag.StringVar(&cfg.Only, "func", "", "only functions whose name contains this substring")
	flag.StringVar(&cfg.Evidence, "evidence", "", "evidence file to write")
	flag.StringVar(&cfg.WorkDir, "work", "", "directory for SMT files (default: /verif/work/<prop>)")
	flag.IntVar(&cfg.Timeout, "timeout", 0, "per-obligation solver timeout in seconds (default 10 quick / 60 thorough)")
	flag.IntVar(&cfg.Workers, "j", 0, "parallel obligations")
	flag.BoolVar(&cfg.Verbose, "v", false, "verbose")
	flag.BoolVar(&cfg.List, "list", false, "list obligations without solving")
	flag.StringVar(&cfg.Root, "root", envOr("VERIF_ROOT", "/verif"), "verification root (/verif)")
	flag.Parse()
	os.Exit(check.Run(cfg))
}

func envOr(k, d string) string {
	if v := os.Getenv(k); v != "" {
		return v
	}
	return d
}

var _ = fmt.Sprint
