#!/bin/bash
# usage: seed_run.sh <seeded-dir> <prop> [more props...]
# Applies seeded/<..>/patch.diff to a scratch copy of /repo (never to /repo itself), runs the quick check of each
# property against that copy, removes the copy. Prints one line per property: DETECTED <obligations> / MISSED.
set -u
d=$(realpath $1); shift
cd /verif
scratch=$(mktemp -d /tmp/seedrepo.XXXXXX)
trap 'rm -rf "$scratch"' EXIT
rsync -a --exclude .git /repo/ "$scratch/"
( cd "$scratch" && patch -p1 -s --fuzz=3 < "$d/patch.diff" ) || { echo "patch does not apply"; exit 2; }
for p in "$@"; do
  out=$(VERIF_NO_RETRY=1 VERIF_MAX_FAILURES=2 ./bin/govc -repo "$scratch" -prop $p -tier quick -work /tmp/seedwork.$$ 2>&1)
  rm -rf /tmp/seedwork.$$
  if echo "$out" | grep -q "^VIOLATION"; then
    echo "$p DETECTED $(echo "$out" | grep '^VIOLATION' | sed 's/.*obligation=\([^ ]*\).*/\1/' | sort -u | head -4 | paste -sd,)"
  else
    echo "$p MISSED $(echo "$out" | tail -1 | cut -c1-120)"
  fi
done
