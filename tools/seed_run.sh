#!/bin/bash
# usage: seed_run.sh <seeded-dir> <prop> [more props...]  -- applies seeded/<..>/patch.diff to /repo, runs the
# quick check of each property, reverts the patch. Prints one line per property: DETECTED / MISSED.
set -u
d=$(realpath $1); shift
cd /verif
git -C /repo apply "$d/patch.diff" || { echo "patch does not apply"; exit 2; }
trap 'git -C /repo apply -R "'$d'/patch.diff"' EXIT
for p in "$@"; do
  out=$(./bin/govc -prop $p -tier quick -work /verif/work/seed-$p 2>&1)
  if echo "$out" | grep -q "^VIOLATION"; then
    echo "$p DETECTED $(echo "$out" | grep '^VIOLATION' | sed 's/.*obligation=\([^ ]*\).*/\1/' | sort -u | head -5 | paste -sd,)"
  else
    echo "$p MISSED $(echo "$out" | tail -1)"
  fi
done
