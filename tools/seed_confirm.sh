#!/bin/bash
# usage: seed_confirm.sh <worktree> <mK>   -- re-confirms a seeded change in its scratch worktree:
# demo passes on the clean tree and fails with the patch applied. Prints CONFIRMED or NOT-CONFIRMED.
set -u
wt=$1; m=$2
export GOFLAGS=-mod=mod GOPROXY=off GOSUMDB=off GOTOOLCHAIN=local
cd "$wt" || exit 2
git checkout -q -- . ; git clean -fdq -e out
demo=out/${m}_demo_test.go
dir=$(head -1 $demo | sed -n 's|^// *place in: *||p' | tr -d ' ')
[ -z "$dir" ] && { echo "NOT-CONFIRMED no place-in line"; exit 1; }
cp $demo $dir/zz_seed_${m}_test.go
tests=$(grep -o '^func Test[A-Za-z0-9_]*' $demo | sed 's/func //' | paste -sd'|')
clean=$( (cd $dir && go test -vet=off -count=1 -timeout 300s -run "^($tests)\$" . 2>&1) | tail -1)
git apply out/$m.diff || { echo "NOT-CONFIRMED patch does not apply"; exit 1; }
mut=$( (cd $dir && go test -vet=off -count=1 -timeout 300s -run "^($tests)\$" . 2>&1) | tail -1)
git checkout -q -- . ; git clean -fdq -e out
case "$clean" in ok*) ;; *) echo "NOT-CONFIRMED demo fails on clean tree: $clean"; exit 1;; esac
case "$mut" in ok*) echo "NOT-CONFIRMED demo passes with the change: $mut"; exit 1;; esac
echo "CONFIRMED clean=[$clean] mutant=[$mut]"
