#!/bin/bash
# usage: seed_import.sh <prop>  -- confirms and imports /tmp/seed/<prop>/out/m*.diff into /verif/seeded/<prop>-mK/
set -u
p=$1
for diff in /tmp/seed/$p/out/m*.diff; do
  m=$(basename $diff .diff)
  res=$(/verif/tools/seed_confirm.sh /tmp/seed/$p $m 2>&1 | tail -1)
  echo "$p $m: $res"
  case "$res" in CONFIRMED*) ;; *) continue;; esac
  d=/verif/seeded/$p-$m
  mkdir -p $d
  cp $diff $d/patch.diff
  cp /tmp/seed/$p/out/${m}_demo_test.go $d/demo_test.go.txt
  cp /tmp/seed/$p/out/$m.md $d/notes.md
  files=$(grep '^+++ b/' $diff | sed 's|+++ b/||' | paste -sd,)
  jq -n --arg p "$p" --arg m "$m" --arg files "$files" --arg conf "$res" '{property:$p, id:($p+"-"+$m), source:"fresh sub-agent given only the property text and a scratch worktree", files:($files|split(",")), confirmation:$conf, demo:"demo_test.go.txt (first line names the package directory)", detected_by:null}' > $d/meta.json
done
