#!/bin/bash
# runs every seeded change against the check of its own property; writes seeded/RESULTS.tsv and updates meta.json
cd /verif
: > seeded/RESULTS.tsv
for d in seeded/C*-*/; do d=${d%/}
  id=$(basename $d); p=${id%%-*}
  claimed=$(jq -r --arg p $p '.checks[]|select(.property_id==$p)|.property_id' MANIFEST.json)
  if [ -z "$claimed" ]; then echo -e "$id\t$p\tNOT-CLAIMED\t" >> seeded/RESULTS.tsv; continue; fi
  r=$(tools/seed_run.sh $d $p 2>&1 | tail -1)
  st=$(echo "$r" | awk '{print $2}'); ob=$(echo "$r" | cut -d' ' -f3-)
  echo -e "$id\t$p\t$st\t$ob" >> seeded/RESULTS.tsv
  tmp=$(mktemp); jq --arg st "$st" --arg ob "$ob" '.result=$st | .detected_by=(if $st=="DETECTED" then $ob else null end)' $d/meta.json > $tmp && mv $tmp $d/meta.json
done
cat seeded/RESULTS.tsv
