#!/bin/bash
# usage: imp.sh <prop> <wt>
p=$1; wt=$2; m=m4
res=$(/verif/tools/seed_confirm.sh $wt $m 2>&1 | tail -1)
echo "$p $m: $res"
case "$res" in CONFIRMED*) ;; *) exit 1;; esac
d=/verif/seeded/$p-$m
mkdir -p $d
cp $wt/out/$m.diff $d/patch.diff
cp $wt/out/${m}_demo_test.go $d/demo_test.go.txt
cp $wt/out/$m.md $d/notes.md
files=$(grep '^+++ b/' $d/patch.diff | sed 's|+++ b/||' | paste -sd,)
jq -n --arg p "$p" --arg m "$m" --arg files "$files" --arg conf "$res" '{property:$p, id:($p+"-"+$m), source:"fresh sub-agent given only the property text and a scratch worktree (contract files removed from it)", files:($files|split(",")), confirmation:$conf, demo:"demo_test.go.txt (first line names the package directory)", needs:"see notes.md", detected_by:null}' > $d/meta.json
