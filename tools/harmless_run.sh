#!/bin/bash
# Applies the harmless-edit corpus (seeded/harmless/patch.diff: renamed locals, x += y rewritten as x = x + y, a hoisted
# method value, explicit temporaries, reordered independent assignments) to a scratch copy of /repo and runs the checks
# of the properties those functions serve: every check must PASS (no VIOLATION line).
set -u
cd /verif
scratch=$(mktemp -d /tmp/harmless.XXXXXX)
trap 'rm -rf "$scratch" /tmp/harmlesswork.$$' EXIT
rsync -a --exclude .git /repo/ "$scratch/"
for d in /verif/seeded/harmless/*.diff; do ( cd "$scratch" && patch -p1 -s --fuzz=3 < "$d" ) || { echo "patch $d does not apply"; exit 2; }; done
rc=0
for p in ${@:-C01 C04 C07 C08 C11 C15}; do
  out=$(./bin/govc -repo "$scratch" -prop $p -tier quick -work /tmp/harmlesswork.$$ 2>&1)
  if echo "$out" | grep -q "^VIOLATION"; then echo "$p FALSE-ALARM $(echo "$out" | grep '^VIOLATION' | head -2)"; rc=1; else echo "$p PASS"; fi
done
exit $rc
