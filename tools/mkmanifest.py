#!/usr/bin/env python3
"""Regenerates /verif/MANIFEST.json from the table below (kept in one place so it stays valid)."""
import json, subprocess, os
ROOT = os.path.dirname(os.path.dirname(os.path.abspath(__file__)))
props = [json.loads(l) for l in open(os.path.join(ROOT, 'properties.jsonl'))]

TECH = "contract-based deductive verification: VCs generated from go/ast+go/types of the real functions against //@ contracts, discharged by z3 5.1.0 / z3 4.8.12 / cvc5 1.0.3"

# property -> (level text, level_note, design_ref)
CLAIMED = {
 "C01": ("Postconditions, proved for all inputs, of DDSketch.AddWithCount (a trackable value goes to the bin Index(|v|) of its side, or to the zero bucket when |v| is below the smallest indexable value; total weight +count) and of GetValueAtQuantile (the answer is +-Value(i) of a bin i of positive weight whose cumulative-weight interval contains the rank max(q*(W-1),0) on the side the rank falls in, first/last bin for q=0/1), over the Store interface contract (KeyAtRank = first index whose cumulative weight exceeds the rank) refined by the dense, collapsing and sparse stores, and over the IndexMapping interface contract (value within [LowerBound(i),LowerBound(i+1)], Value(i)=LowerBound(i)(1+alpha), bound ratio <= (1+alpha)/(1-alpha)).",
         "The step from 'cumulative-weight interval contains the rank' to 'within alpha of the order statistic x_floor/ceil(q(n-1))' is a code-independent lemma (rank lemma + I6) stated in DESIGN 4 C01, not machine-checked. The mapping interface contract is proved for the logarithmic mapping and rests on stated analytic assumptions for the interpolated ones (see C03). float64 arithmetic is real arithmetic (A-REAL): rounding of q*(n-1) and of Log/Exp at bin edges is not decided. SparseStore.KeyAtRank's functional postconditions are assumed (body verified for frame/safety); sketches built on the buffered-paginated store are not covered (the store is verified separately, see C04).",
         "DESIGN 4 C01"),
 "C02": ("MergeWith of DenseStore, SparseStore, both collapsing stores and DDSketch (plain and exact) is proved to add the argument's content index-wise (folded at the edge for collapsing receivers), to add zero weights and totals, to refuse differing mappings without any change, and to leave the argument's content unchanged; both the same-kind fast paths and the ForEach fallback (any argument kind satisfying the Store contract) are covered. Associativity/commutativity of index-wise addition then gives order- and partition-independence.",
         "The buffered-paginated store's MergeWith is proved on the store's own abstraction (C04) but sketches built on that store are not covered. Sketch and stores passed to a merge are assumed distinct with disjoint storage (disjoint(s, other), A-ENC). Equality of mappings is what IndexMapping.Equals decides (proved, see C19). A-REAL for weights.",
         "DESIGN 4 C02"),
 "C05": ("For both collapsing stores every function (adjust, extendRange, normalize, Add*, MergeWith same-kind and generic, Copy, Clear, decode) is proved for all inputs and all bin limits N>=1: len(bins) <= N and window width <= N are invariants, count = sum of bins (no weight lost), and each operation's content equals the previous content folded at the new collapsing edge plus the added weight on max/min(index, edge) (per-operation form of 'exact content folded at the edge'); every merge is panic-free, including a range wider than N into an empty or cleared store (genuine defect found and fixed, see known_findings.txt).",
         "The composition lemma Fold(Fold(G,e1)+d, e2) = Fold(G+d, e2) for e2 beyond e1, which turns the per-operation statements into the history statement, is code-independent and stated in DESIGN, not machine-checked; the fold placement of the generic (other-kind) merge path is proved only as conservation + invariant. Sketch-level accuracy for retained bins follows from C01's contract with the clamped store contract. A-REAL; getNewLength's float expression is evaluated in real arithmetic.",
         "DESIGN 4 C05"),
 "C06": ("Proved for all inputs: every Encode (stores, mappings, both sketch variants) only appends to the caller's buffer (existing bytes and length prefix kept) and leaves the abstract state of the sketch unchanged; every decoder consumes its input strictly from the front, preserves the store/sketch invariants and never removes weight; the mapping encoder is pinned to the bytes it writes (kind flag, IEEE little-endian base and offset), the sketch encoder to the presence of the zero-weight and mapping blocks it is asked for; the generic bin decoder is proved to keep its running index equal to the sum of the deltas read and to add exactly the weights read; primitive codec round trips and framing are C18.",
         "What the appended bytes denote (bins, zero weight, mapping) and the round trip decode(encode(s)) = s are NOT discharged deductively here (no stream-denotation contract yet); no bounded stand-in is built yet either. Paginated store: native decoders and Encode under contract (C04), not the sketch built on it.",
         "DESIGN 4 C06"),
 "C07": ("Proved: the per-flag payload framing of the sketch decoder - the plain decoder consumes exactly the documented payload of each summary-statistics block (varfloat64 length for the total count, 8 bytes for sum/min/max) and rejects every other feature flag (genuine defect found and fixed: it skipped 8 bytes for the varfloat count); flag type/subflag dispatch; bin layouts other than the three documented ones are rejected by every store; the generic bin decoder keeps its running index equal to the sum of the deltas read and adds exactly the weights read (repeated zero-weight blocks add up: the zero weight is accumulated, not overwritten).",
         "That encoders emit exactly the documented grammar, and that every grammatical stream decodes to the documented content, is not discharged deductively (no stream-denotation contract yet). ",
         "DESIGN 4 C07"),
 "C08": ("Error propagation proved for all byte strings: primitive decoders return io.EOF without consuming on any incomplete code (C18); the generic bin decoder returns nil only if every primitive read succeeded and the layout is known; the sketch decoder returns nil only if every block (including the bin blocks: genuine defect found and fixed) was complete, every flag known, no mapping block differed from the sketch's mapping, and a mapping is present; all decoding loops terminate (decreases) and no decoder panics or reads out of bounds.",
         "Input domain A-DOM (assumed, listed per call in the evidence): decoded weights are finite and non-negative and accumulated indexes fit 32 bits, as in every prefix of a valid encoding. The buffered-paginated store's two native decoders are under contract (success only if exactly the declared number of bins was read; a genuine defect for counts >= 2^63 was found and fixed), its third layout goes through the generic decoder, which is not verified for that store. DecodeDDSketch's store provider is a caller-supplied function (trusted contract).",
         "DESIGN 4 C08"),
 "C09": ("Message level only, proved for all inputs: DenseStore.ToProto (also inherited by both collapsing stores) and SparseStore.ToProto return a message that denotes exactly the store's content, where a message denotes for each index the sum of its sparse entry and its contiguous entry ('bins given both sparsely and contiguously add up'); MergeWithProto adds exactly what the message denotes to any store of the interface invariant (and FromProto builds a dense store with exactly that content); the mappings' ToProto/FromProto carry kind, base and offset unchanged (C19); DDSketch.ToProto assembles these and the zero weight and changes nothing.",
         "NOT decided (no contract within reach): proto.Marshal/Unmarshal (reflection), the streaming writer EncodeProto and the generated builder code (so 'the bytes of the streaming writer unmarshal to the same message' is not checked at all), BufferedPaginatedStore.ToProto/EncodeProto/MergeWithProto, FromProtoWithStoreProvider at sketch level (caller-supplied provider called twice). The round trip FromProto(ToProto(s)) = s follows from the two message-level postconditions by substitution, not as one discharged lemma. Messages are assumed well formed (non-negative weights, contiguous indexes within 32 bits). A-REAL.",
         "DESIGN AB.5 / 4 C09"),
 "C10": ("Every method of the exact-summary sketch preserves the invariant statistics.count = total weight of the sketch, count>=0, sentinel extremes when empty, min<=max otherwise; Add/AddWithCount update the statistics only when the inner sketch accepted the value with positive weight (min/max folded, count and sum added), refusals and zero weights change nothing; MergeWith, Reweight, Clear, Copy, Encode, decode have whole-state postconditions; quantile answers are clamped to [min,max]. Proved for all inputs.",
         "In real arithmetic (A-REAL) the Kahan compensation is identically 0, so 'sum error within a few ulps' is not decided. The exact variant's ChangeMapping is proved to rescale a copy of the statistics and leave the source untouched (redistribution helper trusted); the exactness of min/max as extremes of the absorbed multiset are by induction over the per-operation postconditions (not a machine-checked history lemma). Values decoded from a stream are assumed finite.",
         "DESIGN 4 C10"),
 "C11": ("GetValueAtQuantile's postcondition holds for arbitrary non-negative real weights: the selected bin has positive weight, lies on a non-empty side, and its cumulative interval contains the clamped rank max(q*(W-1),0); the genuine defect for total weight below 1 (answer from the empty negative side) was found and fixed.",
         "Same mapping/store assumptions as C01; A-REAL.",
         "DESIGN 4 C11"),
 "C12": ("GetCount = zero weight + both totals, IsEmpty iff that is 0, GetMin/MaxValue pick the extreme non-empty bin (0 for the zero bucket, error iff empty), GetValuesAtQuantiles fails exactly when a single query would and otherwise returns one answer per quantile, all proved for all inputs; queries leave the abstract state unchanged.",
         "DDSketch.ForEach and GetSum are proved for the stop protocol (f is never called again after asking to stop, only with positive weights) and purity; which (value, weight) pairs they produce - hence the value of GetSum - is not restated at sketch level; monotonicity in q and alpha-accuracy of the extremes follow from the quantile contract by code-independent lemmas (not machine-checked).",
         "DESIGN 4 C12"),
 "C13": ("Rejection postconditions taken from the statement, proved over extended reals (NaN, +-Inf): AddWithCount of both variants returns ErrNegativeCount / ErrUntrackableNaN / TooHigh / TooLow exactly as documented and otherwise nil, quantile queries reject every q that is not in [0,1] (NaN included) and empty sketches, MergeWith with a different mapping and Reweight(w<=0) are refused; a refused call leaves the abstract state unchanged. Two genuine defects found and fixed (NaN quantile accepted; exact variant accepted invalid values with weight 0).",
         "Mapping constructors' refusals (base <= 1, accuracy outside (0,1)) are proved; NewBin and the store constructors with bin limits are not under contract. Weights/factors are assumed finite (NaN weights are outside the documented contract).",
         "DESIGN 4 C13"),
 "C14": ("Frame conditions proved: every query of the sketch variants and of the dense, sparse and collapsing stores leaves the abstract state (mapping, zero weight, both contents, totals) unchanged; Copy returns a sketch/store with equal content whose whole footprint is freshly allocated, so later operations on either cannot affect the other (every mutator's modifies clause is confined to the receiver's footprint).",
         "Buffered-paginated store: Copy independence, Encode and compaction purity are proved or assumed as listed under C04; its iteration/rank queries (which sort the buffer) are not under contract. ToProto purity is proved at message level (C09); EncodeProto purity is not covered. ChangeMapping of both variants is proved to leave the source sketch and its statistics unchanged and to rescale a copy of the statistics, with the redistribution helper changeStoreMapping TRUSTED (only its frame is assumed; C17 not claimed).",
         "DESIGN 4 C14"),
 "C15": ("Clear of the dense, sparse and collapsing stores, of the statistics and of both sketch variants is proved to establish exactly the constructor's postcondition on the complete abstract state (empty content, sentinel window, isCollapsed reset, zero weight 0); retained capacity is covered because the first append after Clear is proved to re-zero the reused array.",
         "Buffered-paginated Clear is proved on the store's own abstraction (C04); 'every subsequent history behaves alike' is by determinism of the contracts over the abstract state (not a machine-checked lemma).",
         "DESIGN 4 C15"),
 "C16": ("Reweight(w) of the dense (hence collapsing) and sparse stores, the statistics and both sketch variants: refused without change for w<=0, otherwise every bin, the zero weight and the totals are multiplied by w (whole-content postcondition), min/max unchanged.",
         "Buffered-paginated Reweight is proved on the store's own abstraction (C04). A-REAL.",
         "DESIGN 4 C16"),
 "C03": ("For the logarithmic mapping every clause is a proved postcondition, for all gamma > 1 and all index offsets whose indexable range is not empty: bin bounds positive and strictly increasing, every indexable v lies between the bounds of its bin (closed interval), its index fits 32 bits, the index is monotone in v, Value(i) = LowerBound(i)(1+alpha), consecutive bounds at most a factor (1+alpha)/(1-alpha) apart, and NewLogarithmicMapping(alpha) reports exactly alpha; Index/Value/LowerBound/RelativeAccuracy/Min/MaxIndexableValue of all three mapping kinds are proved to compute the specified expressions over the fields (manual floor for negatives, offset placement, multiplier inversion). For the two interpolated mappings the same interface contract is proved from the constructor code and from stated analytic assumptions about approximateLog/approximateInverseLog.",
         "A-REAL: float64 is real arithmetic, math.Exp/Log/Exp2/Log2/Pow are uninterpreted with trusted textbook axioms (prelude/math.spec, listed in the evidence); the '+-k ulps' clause is not decided. TRUSTED for the linear and cubic mappings (not proved): approximateLog/approximateInverseLog are bit-level functions outside the real model - their being monotone mutual inverses within 1 of log2 with bounded growth is assumed (axioms LinA*/CubA*), so a change inside those two functions or in bit_operation_helper.go is NOT detected; 'reported accuracy equals the one built with' is proved for the logarithmic mapping only (the interpolated constructors use rounded constants). Mappings whose indexable range is empty (absurd offsets) are outside the contract (DESIGN F9).",
         "DESIGN 4 C03"),
 "C04": ("Dense and sparse stores: every operation (Add*, AddBin, TotalCount, IsEmpty, Min/MaxIndex, KeyAtRank, ForEach, MergeWith from any store kind, Copy, Clear, Reweight, decoding, Encode) has a whole-content postcondition over the abstract index->weight map, proved for all inputs, and refines the Store interface contract. Buffered-paginated store: verified on its own abstraction (weight of k = page line + occurrences in the buffer): constructor, Add, AddWithCount, AddBin, Clear, Copy (no shared storage), Reweight (pages and buffered entries), MergeWith (same-kind page-wise path and the generic ForEach path; the argument is unchanged), TotalCount, IsEmpty, both native decoders (success only if exactly the declared number of bins was read: genuine defect found and fixed) and Encode (content-preserving).",
         "Buffered-paginated store: page() and compact() are TRUSTED (page-table growth and buffer-to-page moves: contracts assumed, bodies not verified); MinIndex, MaxIndex, KeyAtRank, minIndexWithCumulCount and ForEach are verified only for bounds, absence of panics, purity (content unchanged; MinIndex/MaxIndex change nothing) and - ForEach - never calling f again after it asked to stop: WHICH index or pairs they produce is not specified for this store; Bins, ToProto/EncodeProto/MergeWithProto are not under contract; the store is not part of the interface invariant, so sketch-level contracts do not cover sketches built on it. SparseStore.KeyAtRank: body verified for frame and safety, its two functional postconditions assumed (sort.Slice enumeration trusted). Bins() (goroutines) is outside the subset for every store. A-REAL for weights; TotalCount of the paginated store is proved equal to buffer length + double sum of page lines, the link of that sum to the abstract map is not proved.",
         "DESIGN 4 C04"),
 "C19": ("Proved for all three kinds: Equals decides exactly 'same kind, base and offset within a relative 1e-12' (float64 constant), is reflexive and symmetric on valid mappings, false across kinds and false when bases differ by a relative 1e-11 or more; constructors store exactly the base and offset given; Encode writes the kind flag, then the IEEE little-endian bytes of the base, then of the offset (byte-level postcondition); Decode consumes exactly 17 bytes, dispatches on the flag and calls the same constructor; ToProto records kind/base/offset and FromProto rebuilds from exactly those; float64LE round trip is bit-exact (C18).",
         "The composition decode(encode(m)) equal to m is not one machine-checked lemma: it follows from the byte-level Encode postcondition, the bit-exact float64LE lemma of C18 and the Decode contract, with the real<->IEEE change of representation treated as uninterpreted (A-REAL bridge). The streaming protobuf writer (EncodeProto, generated builder code) is not under contract (see C09). 'Clearly different accuracies are never equal' is proved as a statement about bases (gamma), not alphas.",
         "DESIGN 4 C19"),
 "C20": ("Every method of the reference Dataset is under a functional contract proved for all inputs: the representation invariant (Count = len(Values), sorted flag implies sortedness, finite values) is established by the constructor and preserved by Add/Merge/queries, Lower/UpperQuantile return NaN exactly for q outside [0,1] (NaN included) or an empty dataset and otherwise the element at index floor/ceil(q*(n-1)) of a sorted permutation of the values (= that order statistic), Min/Max are the extremes, Merge appends the argument's values, Sum is the real sum.",
         "float64 arithmetic is real arithmetic plus NaN/Inf (A-REAL): the rank q*(n-1) and the sum are exact, so the 'sum accurate to rounding' clause and float rounding of the rank are not decided; sort.Float64s is trusted (sorted permutation); values are assumed finite (NaN values excluded); exported fields are assumed to be written only by the methods.",
         "DESIGN 4 C20"),
 "C18": ("All obligations (pre/post/loop-unwinding/bounds/frame) of every codec function in package encoding are discharged bit-precisely (64/8-bit vectors, IEEE binary64) for all inputs; round-trip, prefix/EOF, framing and size-table facts are postconditions and SMT lemmas over the spec functions written from the doc comments.",
         "Trusted: generator semantics for the Go subset, models of append/binary.LittleEndian/math.Float64bits/bits.*; NaN payloads are not distinguished (one NaN); size tables: no writer other than the init functions (unexported package variables, checked by the generator refusing assignments to package-level variables).",
         "DESIGN 4 C18"),
}

NA = {
 "C03x": "mapping implementations (Index/Value/LowerBound of the three mappings, their constructors) are not yet under contract: the relative-accuracy inequalities need lemma-guided transcendental/nonlinear reasoning that is under construction; until then the IndexMapping contract is an assumption of C01/C05/C11 (constructors are marked trusted). No check is claimed.",
 "C04x": "BufferedPaginatedStore (buffer + pages, sort/compaction on read) is not yet under contract; no check is claimed.",
 "C09x": "the protobuf conversion functions (ToProto/FromProto*/MergeWithProto/EncodeProto) depend on generated protobuf code and reflection-based marshalling that is outside the verifier's Go subset; contracts over the sketchpb structs are under construction. No check is claimed.",
 "C17": "ChangeMapping/changeStoreMapping (redistribution of weight by interval overlap) is not yet under contract; no check is claimed.",
 "C19x": "IndexMapping.Equals/withinTolerance and the mapping encoders' identity are not yet under contract (the abstract relation MEq is assumed to be what Equals decides); no check is claimed.",
}
NA_DEFAULT = "check not built yet; see DESIGN.md section 4 for the plan"

def hooks_commits():
    try:
        out = subprocess.check_output(['git','-C','/repo','log','--format=%H %s'], text=True)
        return [l.split()[0] for l in out.splitlines() if 'verif hook' in l]
    except Exception:
        return []

m = {
 "version": 1,
 "setup_cmd": "cd /verif && GOFLAGS=-mod=vendor GOPROXY=off GOSUMDB=off GOTOOLCHAIN=local go build -o bin/govc ./cmd/govc",
 "hooks": {"guard": "verif",
           "enable": "contract files zz_*_verif.go carry //go:build verif and contain only comments (//@ lines); govc loads /repo with -tags=verif",
           "baseline_off_cmd": "cd /repo && go test -vet=off -count=1 ./...",
           "source_commits": hooks_commits(), "add_only": True},
 "engines": [{"name": "govc", "path": "/verif/cmd/govc", "serves_properties": sorted(CLAIMED),
              "kind_free_text": "VC generator (symbolic execution of go/ast with go/types, loops cut at invariants, calls replaced by contracts) + SMT portfolio"}],
 "checks": [], "not_applicable": [],
 "notes": "Every check reloads /repo's working tree (go/packages, -tags=verif), regenerates all obligations of the functions serving the property and discharges them; an undischarged obligation is reported as VIOLATION with the obligation name.",
}
for p in props:
    pid = p["id"]
    if pid in CLAIMED:
        text, note, ref = CLAIMED[pid]
        m["checks"].append({
            "property_id": pid,
            "quick_cmd": f"./check {pid} quick",
            "thorough_cmd": f"./check {pid} thorough",
            "evidence_file": f"/verif/evidence/{pid}.json",
            "replay_cmd_template": "cat {path}",
            "engine": "govc",
            "level_claimed": {"category": "proof", "text": text, "design_ref": ref},
            "level_note": note,
            "technique": TECH,
        })
    else:
        m["not_applicable"].append({"property_id": pid, "reason": NA.get(pid, NA_DEFAULT)})
json.dump(m, open(os.path.join(ROOT, 'MANIFEST.json'), 'w'), indent=1)
print("claimed:", sorted(CLAIMED))
