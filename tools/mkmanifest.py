#!/usr/bin/env python3
"""Regenerates /verif/MANIFEST.json from the table below (kept in one place so it stays valid)."""
import json, subprocess, os
ROOT = os.path.dirname(os.path.dirname(os.path.abspath(__file__)))
props = [json.loads(l) for l in open(os.path.join(ROOT, 'properties.jsonl'))]

TECH = "contract-based deductive verification: VCs generated from go/ast+go/types of the real functions against //@ contracts, discharged by z3 5.1.0 / z3 4.8.12 / cvc5 1.0.3"

# property -> (level text, level_note, design_ref)
CLAIMED = {
 "C20": ("Every method of the reference Dataset is under a functional contract proved for all inputs: the representation invariant (Count = len(Values), sorted flag implies sortedness, finite values) is established by the constructor and preserved by Add/Merge/queries, Lower/UpperQuantile return NaN exactly for q outside [0,1] (NaN included) or an empty dataset and otherwise the element at index floor/ceil(q*(n-1)) of a sorted permutation of the values (= that order statistic), Min/Max are the extremes, Merge appends the argument's values, Sum is the real sum.",
         "float64 arithmetic is real arithmetic plus NaN/Inf (A-REAL): the rank q*(n-1) and the sum are exact, so the 'sum accurate to rounding' clause and float rounding of the rank are not decided; sort.Float64s is trusted (sorted permutation); values are assumed finite (NaN values excluded); exported fields are assumed to be written only by the methods.",
         "DESIGN 4 C20"),
 "C18": ("All obligations (pre/post/loop-unwinding/bounds/frame) of every codec function in package encoding are discharged bit-precisely (64/8-bit vectors, IEEE binary64) for all inputs; round-trip, prefix/EOF, framing and size-table facts are postconditions and SMT lemmas over the spec functions written from the doc comments.",
         "Trusted: generator semantics for the Go subset, models of append/binary.LittleEndian/math.Float64bits/bits.*; NaN payloads are not distinguished (one NaN); size tables: no writer other than the init functions (unexported package variables, checked by the generator refusing assignments to package-level variables).",
         "DESIGN 4 C18"),
}
NA_REASON = "check not built yet (engine under construction); see DESIGN.md section 4 for the plan"

def hooks_commits():
    try:
        out = subprocess.check_output(['git','-C','/repo','log','--format=%H %s'], text=True)
        return [l.split()[0] for l in out.splitlines() if 'verif hook' in l]
    except Exception:
        return []

m = {
 "version": 1,
 "setup_cmd": "cd /verif && GOFLAGS=-mod=vendor GOPROXY=off GOSUMDB=off GOTOOLCHAIN=local go build -o bin/govc ./cmd/govc",
 "hooks": {"guard": "verif",
           "enable": "contract files zz_*_verif.go carry //go:build verif and contain only comments (//@ lines); govc loads /repo with -tags=verif",
           "baseline_off_cmd": "cd /repo && go test -vet=off -count=1 ./...",
           "source_commits": hooks_commits(), "add_only": True},
 "engines": [{"name": "govc", "path": "/verif/cmd/govc", "serves_properties": sorted(CLAIMED),
              "kind_free_text": "VC generator (symbolic execution of go/ast with go/types, loops cut at invariants, calls replaced by contracts) + SMT portfolio"}],
 "checks": [], "not_applicable": [],
 "notes": "Every check reloads /repo's working tree (go/packages, -tags=verif), regenerates all obligations of the functions serving the property and discharges them; an undischarged obligation is reported as VIOLATION with the obligation name.",
}
for p in props:
    pid = p["id"]
    if pid in CLAIMED:
        text, note, ref = CLAIMED[pid]
        m["checks"].append({
            "property_id": pid,
            "quick_cmd": f"./check {pid} quick",
            "thorough_cmd": f"./check {pid} thorough",
            "evidence_file": f"/verif/evidence/{pid}.json",
            "replay_cmd_template": "cat {path}",
            "engine": "govc",
            "level_claimed": {"category": "proof", "text": text, "design_ref": ref},
            "level_note": note,
            "technique": TECH,
        })
    else:
        m["not_applicable"].append({"property_id": pid, "reason": NA_REASON})
json.dump(m, open(os.path.join(ROOT, 'MANIFEST.json'), 'w'), indent=1)
print("claimed:", sorted(CLAIMED))
